//! C06 legs.
//!  c06-e2e : generated debuggees (recursive type grammar), every variable read through the real debugger,
//!            canonicalised and compared IN RUST with the generator's ground-truth value tree.
//!  c06-unit: the same sessions; for every integer / enum / Vec / String / VecDeque / HashMap / HashSet / BTreeMap /
//!            BTreeSet met anywhere in a value tree the raw header fields and the raw memory the decoders read are
//!            taken from /proc/<pid>/mem and printed as int_case / enum_case / vec_case / vd_case / hb_case / bt_case.
use crate::c06_dwarf::{self, EnumInfo};
use crate::c06_gen::{self as g, Decls, Gen, IntK, Program, Ty, Val};
use crate::coqfmt::{self as cf, CasesFile};
use crate::e2e;
use crate::rng::Rng;
use bugstalker::debugger::variable::dqe::{Dqe, Selector};
use bugstalker::debugger::variable::render::RenderValue;
use bugstalker::debugger::variable::value::{
    PointerValue, SpecializedValue, StructValue, SupportedScalar, Value, VerifParseContext as Pcx,
};
use nix::unistd::Pid;
use std::collections::{BTreeMap, HashMap, HashSet, VecDeque};

// ------------------------------------------------------------------------------------------
// canonical form of a value (both sides)
// ------------------------------------------------------------------------------------------
#[derive(Clone, Debug, PartialEq, Eq, PartialOrd, Ord)]
pub enum C {
    Int { ty: String, v: String },
    Float { ty: String, bits: u64 },
    Bool(bool),
    Char(u32),
    Unit,
    Struct { ty: String, fields: Vec<(String, C)> },
    Enum { ty: String, variant: String, fields: Vec<(String, C)> },
    CEnum { ty: String, variant: String },
    Seq { ty: String, items: Vec<C> },
    Str { ty: String, s: String },
    Map { ty: String, kv: Vec<(C, C)> },
    Set { ty: String, items: Vec<C> },
    Ptr { ty: String, to: Box<C> },
    Bad(String),
}

fn render(c: &C, out: &mut String) {
    if out.len() > 1500 {
        return;
    }
    let fields = |fs: &Vec<(String, C)>, out: &mut String| {
        for (i, (n, c)) in fs.iter().enumerate() {
            if i > 0 { out.push_str(", "); }
            out.push_str(n);
            out.push('=');
            render(c, out);
        }
    };
    match c {
        C::Int { ty, v } => { out.push_str(v); out.push_str(ty); }
        C::Float { ty, bits } => out.push_str(&format!("{ty}:{bits:#x}")),
        C::Bool(b) => out.push_str(&b.to_string()),
        C::Char(c) => out.push_str(&format!("'\\u{{{c:x}}}'")),
        C::Unit => out.push_str("()"),
        C::Struct { ty, fields: fs } => { out.push_str(ty); out.push('{'); fields(fs, out); out.push('}'); }
        C::Enum { ty, variant, fields: fs } => { out.push_str(ty); out.push_str("::"); out.push_str(variant); out.push('{'); fields(fs, out); out.push('}'); }
        C::CEnum { ty, variant } => { out.push_str(ty); out.push_str("::"); out.push_str(variant); }
        C::Seq { ty, items } => {
            out.push_str(ty); out.push('[');
            for (i, c) in items.iter().enumerate() { if i > 0 { out.push_str(", "); } render(c, out); }
            out.push(']');
        }
        C::Str { ty, s } => out.push_str(&format!("{ty}:{s:?}")),
        C::Map { ty, kv } => {
            out.push_str(ty); out.push('{');
            for (i, (k, v)) in kv.iter().enumerate() { if i > 0 { out.push_str(", "); } render(k, out); out.push_str(": "); render(v, out); }
            out.push('}');
        }
        C::Set { ty, items } => {
            out.push_str(ty); out.push('{');
            for (i, c) in items.iter().enumerate() { if i > 0 { out.push_str(", "); } render(c, out); }
            out.push('}');
        }
        C::Ptr { ty, to } => { out.push_str(ty); out.push_str("->"); render(to, out); }
        C::Bad(s) => { out.push_str("<<"); out.push_str(s); out.push_str(">>"); }
    }
}
pub fn show(c: &C) -> String {
    let mut s = String::new();
    render(c, &mut s);
    if s.len() > 1500 {
        let mut cut = 1500;
        while !s.is_char_boundary(cut) { cut -= 1; }
        s.truncate(cut);
        s.push_str("...");
    }
    s
}

type Diff<'c> = (String, &'c C, &'c C, Option<(&'c C, &'c C)>);

/// `[T; N]` is shown as `[T]` (recorded finding c06:array-type-name): same element type, length dropped
fn array_name_only(expected_ty: &str, shown_ty: &str) -> bool {
    expected_ty.starts_with('[') && shown_ty.starts_with('[') && shown_ty.ends_with(']') && expected_ty.rfind("; ").map(|p| expected_ty[..p] == shown_ty[..shown_ty.len() - 1]).unwrap_or(false)
}

/// first difference between two canonical trees: (path, expected node, shown node, their parents)
fn first_diff<'c>(e: &'c C, s: &'c C, path: &str, parent: Option<(&'c C, &'c C)>) -> Option<Diff<'c>> {
    if e == s {
        return None;
    }
    let me = Some((e, s));
    fn fields_diff<'c>(ef: &'c Vec<(String, C)>, sf: &'c Vec<(String, C)>, path: &str, me: Option<(&'c C, &'c C)>) -> Option<Diff<'c>> {
        if ef.len() == sf.len() && ef.iter().zip(sf).all(|(a, b)| a.0 == b.0) {
            for (a, b) in ef.iter().zip(sf) {
                if let Some(d) = first_diff(&a.1, &b.1, &format!("{path}.{}", a.0), me) { return Some(d); }
            }
        }
        None
    }
    let d = match (e, s) {
        (C::Struct { ty: t1, fields: f1 }, C::Struct { ty: t2, fields: f2 }) if t1 == t2 => fields_diff(f1, f2, path, me),
        (C::Enum { ty: t1, variant: v1, fields: f1 }, C::Enum { ty: t2, variant: v2, fields: f2 }) if t1 == t2 && v1 == v2 => fields_diff(f1, f2, path, me),
        (C::Seq { ty: t1, items: i1 }, C::Seq { ty: t2, items: i2 }) if (t1 == t2 || array_name_only(t1, t2)) && i1.len() == i2.len() => {
            i1.iter().zip(i2).enumerate().find_map(|(i, (a, b))| first_diff(a, b, &format!("{path}[{i}]"), me))
        }
        (C::Map { ty: t1, kv: k1 }, C::Map { ty: t2, kv: k2 }) if t1 == t2 && k1.len() == k2.len() => {
            k1.iter().zip(k2).enumerate().find_map(|(i, (a, b))| first_diff(&a.0, &b.0, &format!("{path}.key#{i}"), me).or_else(|| first_diff(&a.1, &b.1, &format!("{path}.val#{i}"), me)))
        }
        (C::Set { ty: t1, items: i1 }, C::Set { ty: t2, items: i2 }) if t1 == t2 && i1.len() == i2.len() => {
            i1.iter().zip(i2).enumerate().find_map(|(i, (a, b))| first_diff(a, b, &format!("{path}.item#{i}"), me))
        }
        (C::Ptr { ty: t1, to: a }, C::Ptr { ty: t2, to: b }) if t1 == t2 => first_diff(a, b, &format!("(*{path})"), me),
        _ => None,
    };
    d.or_else(|| Some((path.to_string(), e, s, parent)))
}

/// Which recorded defect (if any) explains a differing node.  The rule looks only at the node that differs:
///  enum-unsigned-discr-high-bit: the expected variant of an enum with an UNSIGNED tag has a DW_AT_discr_value in a
///      fixed-size data form whose top bit is set (gimli's sdata_value sign-extends it; the tag is read unsigned);
///  vecdeque-cap-guard: a VecDeque whose capacity field is above CAP_GUARD (10000);
///  len-guard: a Vec / VecDeque / String / &str with more than LEN_GUARD (10000) elements (shown truncated).
fn cause_of(e: &C, s: &C, enums_by_norm: &HashMap<String, &EnumInfo>, headers: &[(String, u64, u64)], decls: &Decls) -> Option<&'static str> {
    match (e, s) {
        // #[repr(u64)] C-like enum, enumerator value >= 2^63 (DW_FORM_udata that gimli's sdata_value refuses)
        (C::CEnum { ty, variant }, C::Bad(b)) if b.ends_with("no variant shown") => {
            let d = decls.cenums.iter().find(|c| &c.name == ty)?;
            let v = d.variants.iter().find(|v| &v.0 == variant)?;
            return match v.1 { Some(g::IntV::U(x)) if x >= 1u128 << 63 => Some("cenum-u64-discr-above-i64"), _ => None };
        }
        // enum whose tag is 16 bytes wide (Option<u128>, Option<(u128, u128)>, ...)
        (C::Enum { ty, .. }, C::Bad(b)) if b.ends_with("no variant shown") && enums_by_norm.get(ty).map(|i| i.tag_size == 16).unwrap_or(false) => return Some("enum-128bit-tag"),
        // [T; N] named [T], elements equal
        (C::Seq { ty: t1, items: i1 }, C::Seq { ty: t2, items: i2 }) if array_name_only(t1, t2) && i1 == i2 => return Some("array-type-name"),
        // an empty BTreeMap / BTreeSet (root = None) is not interpreted
        (C::Map { ty, kv }, C::Bad(b)) if ty.starts_with("BTreeMap<") && kv.is_empty() && b.ends_with("not interpreted") => return Some("btree-empty-not-interpreted"),
        (C::Set { ty, items }, C::Bad(b)) if ty.starts_with("BTreeSet<") && items.is_empty() && b.ends_with("not interpreted") => return Some("btree-empty-not-interpreted"),
        // PointerValue::slice on a pointer to a zero-sized type: chunks(0) panics
        (C::Seq { ty, .. }, C::Bad(b)) if b.ends_with("PANIC in PointerValue::slice") && (ty.starts_with("&[()") || ty.starts_with("&mut [()")) => return Some("slice-of-zst-panics"),
        _ => {}
    }
    match e {
        C::Enum { ty, variant, .. } => {
            let info = enums_by_norm.get(ty)?;
            if info.tag_signed { return None; }
            let v = info.variants.iter().find(|v| &v.member == variant)?;
            let (form, raw) = v.discr.as_ref()?;
            let bits = match *form { "FData1" => 8, "FData2" => 16, "FData4" => 32, _ => return None };
            let shown_other = match s { C::Enum { variant: sv, .. } => sv != variant, C::Bad(_) => true, _ => false };
            if shown_other && (*raw >> (bits - 1)) & 1 == 1 { Some("enum-unsigned-discr-high-bit") } else { None }
        }
        C::Seq { ty, items } | C::Set { ty, items } if ty.starts_with("VecDeque<") || ty.starts_with("Vec<") => {
            let _ = items;
            let h = headers.iter().filter(|h| &h.0 == ty);
            let mut out = None;
            for (_, len, cap) in h {
                if *len > 10_000 { out = Some("len-guard"); }
                else if ty.starts_with("VecDeque<") && *cap > 10_000 && out.is_none() { out = Some("vecdeque-cap-guard"); }
            }
            out
        }
        C::Str { ty, .. } => headers.iter().find(|h| &h.0 == ty && h.1 > 10_000).map(|_| "len-guard"),
        _ => None,
    }
}

/// DWARF type name -> the Rust spelling: module paths and the default allocator parameter dropped
pub fn norm_ty(s: &str) -> String {
    let b: Vec<char> = s.chars().collect();
    let mut out = String::new();
    let mut i = 0;
    while i < b.len() {
        if b[i].is_alphabetic() || b[i] == '_' {
            let mut j = i;
            while j < b.len() && (b[j].is_alphanumeric() || b[j] == '_') { j += 1; }
            if j + 1 < b.len() && b[j] == ':' && b[j + 1] == ':' {
                i = j + 2; // a path segment: drop it
                continue;
            }
            out.extend(&b[i..j]);
            i = j;
        } else {
            out.push(b[i]);
            i += 1;
        }
    }
    out.replace(", Global", "")
}

pub fn exp_canon(d: &Decls, t: &Ty, v: &Val) -> C {
    let name = t.name(d);
    let named = |fs: &Vec<(String, Ty)>, vs: &Vec<Val>| -> Vec<(String, C)> { fs.iter().zip(vs).map(|((n, t), v)| (n.clone(), exp_canon(d, t, v))).collect() };
    match (t, v) {
        (Ty::Int(k), Val::Int(x)) => C::Int { ty: k.name().into(), v: x.dec() },
        (Ty::F32, Val::F32(b)) => C::Float { ty: "f32".into(), bits: *b as u64 },
        (Ty::F64, Val::F64(b)) => C::Float { ty: "f64".into(), bits: *b },
        (Ty::Bool, Val::Bool(b)) => C::Bool(*b),
        (Ty::Char, Val::Char(c)) => C::Char(*c as u32),
        (Ty::Unit, _) => C::Unit,
        (Ty::Tuple(ts), Val::Tuple(vs)) => C::Struct { ty: name, fields: ts.iter().zip(vs).enumerate().map(|(i, (t, v))| (format!("__{i}"), exp_canon(d, t, v))).collect() },
        (Ty::Struct(i), Val::Tuple(vs)) => C::Struct { ty: name, fields: named(&d.structs[*i].fields, vs) },
        (Ty::Generic(a, b), Val::Tuple(vs)) => C::Struct { ty: name, fields: vec![("a".into(), exp_canon(d, a, &vs[0])), ("b".into(), exp_canon(d, b, &vs[1]))] },
        (Ty::CEnum(i), Val::CEnum(vi)) => C::CEnum { ty: name, variant: d.cenums[*i].variants[*vi].0.clone() },
        (Ty::DEnum(i), Val::DEnum(vi, vs)) => {
            let var = &d.denums[*i].variants[*vi];
            C::Enum { ty: name, variant: var.name.clone(), fields: named(&var.fields, vs) }
        }
        (Ty::Opt(_), Val::None) => C::Enum { ty: name, variant: "None".into(), fields: vec![] },
        (Ty::Opt(t), Val::Some(v)) => C::Enum { ty: name, variant: "Some".into(), fields: vec![("__0".into(), exp_canon(d, t, v))] },
        (Ty::NonZeroU32, Val::NonZero(x)) => C::Struct { ty: name, fields: vec![("0".into(), C::Int { ty: "u32".into(), v: x.to_string() })] },
        (Ty::Array(t, _), Val::Seq(vs)) | (Ty::Slice(t), Val::Seq(vs)) | (Ty::Vec(t), Val::Seq(vs)) => C::Seq { ty: name, items: vs.iter().map(|v| exp_canon(d, t, v)).collect() },
        (Ty::Str, Val::Str(s)) | (Ty::String, Val::Str(s)) => C::Str { ty: name, s: s.clone() },
        (Ty::VecDeque(t), Val::Deque { content, .. }) => C::Seq { ty: name, items: content.iter().map(|v| exp_canon(d, t, v)).collect() },
        (Ty::HashMap(kt, vt), Val::Map { content, .. }) => {
            let mut kv: Vec<(C, C)> = content.iter().map(|(k, v)| (exp_canon(d, kt, k), exp_canon(d, vt, v))).collect();
            kv.sort();
            C::Map { ty: name, kv }
        }
        (Ty::BTreeMap(kt, vt), Val::Map { content, .. }) => {
            let mut c = content.clone();
            g::sort_keys(d, kt, &mut c);
            C::Map { ty: name, kv: c.iter().map(|(k, v)| (exp_canon(d, kt, k), exp_canon(d, vt, v))).collect() }
        }
        (Ty::HashSet(kt), Val::Set { content, .. }) => {
            let mut items: Vec<C> = content.iter().map(|k| exp_canon(d, kt, k)).collect();
            items.sort();
            C::Set { ty: name, items }
        }
        (Ty::BTreeSet(kt), Val::Set { content, .. }) => {
            let mut c: Vec<(Val, Val)> = content.iter().map(|k| (k.clone(), Val::Unit)).collect();
            g::sort_keys(d, kt, &mut c);
            C::Set { ty: name, items: c.iter().map(|(k, _)| exp_canon(d, kt, k)).collect() }
        }
        (Ty::Box(t), Val::Ptr(v)) | (Ty::Rc(t), Val::Ptr(v)) | (Ty::Arc(t), Val::Ptr(v)) | (Ty::Ref(t), Val::Ptr(v)) | (Ty::RefMut(t), Val::Ptr(v))
        | (Ty::RawConst(t), Val::Ptr(v)) | (Ty::RawMut(t), Val::Ptr(v)) => C::Ptr { ty: name, to: Box::new(exp_canon(d, t, v)) },
        (Ty::Cell(t), Val::Cell(v)) => C::Struct { ty: name, fields: vec![("value".into(), exp_canon(d, t, v))] },
        (Ty::RefCell(t), Val::Cell(v)) => C::Struct { ty: name, fields: vec![("borrow".into(), C::Int { ty: "isize".into(), v: "0".into() }), ("value".into(), exp_canon(d, t, v))] },
        _ => C::Bad(format!("generator: type/value mismatch {:?}", t)),
    }
}

// ------------------------------------------------------------------------------------------
// model cases collected during a walk
// ------------------------------------------------------------------------------------------
#[derive(Default)]
pub struct Collected {
    pub ints: Vec<(String, serde_json::Value)>,
    pub enums: Vec<(String, serde_json::Value)>,
    pub vecs: Vec<(String, serde_json::Value)>,
    pub vds: Vec<(String, serde_json::Value)>,
    pub hbs: Vec<(String, serde_json::Value)>,
    pub bts: Vec<(String, serde_json::Value)>,
    pub notes: BTreeMap<String, u64>,
}
impl Collected {
    fn note(&mut self, k: &str) { *self.notes.entry(k.to_string()).or_default() += 1; }
}

/// buffer contents as a Gallina list; the vec/vd checkers compare slot indices only (element bytes are parsed outside the
/// model), so beyond 4096 bytes the real contents are replaced by zero padding of the real length
fn buf_term(b: &[u8]) -> String {
    if b.len() <= 4096 { cf::bytes(b) } else { format!("({} ++ repeat 0%N (N.to_nat {}%N))", cf::bytes(&b[..4096]), b.len() - 4096) }
}

fn zdec(dec: &str) -> String {
    if dec.starts_with('-') { format!("({dec})%Z") } else { format!("{dec}%Z") }
}

/// breadth-first search replicating the debugger's `bfs_iterator` (value/bfs.rs): first child called `name`
fn bfs_field<'v>(root: &'v Value, name: &str, accept: &dyn Fn(&Value) -> bool) -> Option<&'v Value> {
    let mut q: VecDeque<(Option<&'v str>, &'v Value)> = VecDeque::new();
    q.push_back((None, root));
    let mut first = true;
    while let Some((f, v)) = q.pop_front() {
        if !first && f == Some(name) && accept(v) {
            return Some(v);
        }
        first = false;
        match v {
            Value::Struct(s) => s.members.iter().for_each(|m| q.push_back((m.field_name.as_deref(), &m.value))),
            Value::Array(a) => { if let Some(items) = a.items.as_ref() { items.iter().for_each(|it| q.push_back((None, &it.value))) } }
            Value::RustEnum(e) => { if let Some(m) = e.value.as_ref() { q.push_back((m.field_name.as_deref(), &m.value)) } }
            Value::Specialized { original, .. } => original.members.iter().for_each(|m| q.push_back((m.field_name.as_deref(), &m.value))),
            _ => {}
        }
    }
    None
}
fn scalar_u64(v: &Value) -> Option<u64> {
    if let Value::Scalar(s) = v { s.try_as_number().map(|x| x as u64) } else { None }
}
fn bfs_number(root: &Value, name: &str) -> Option<u64> {
    // assume_field_as_scalar_number: the FIRST field of that name must be a number
    bfs_field(root, name, &|_| true).and_then(scalar_u64)
}
fn bfs_pointer(root: &Value, name: &str) -> Option<u64> {
    bfs_field(root, name, &|v| matches!(v, Value::Pointer(p) if p.value.is_some())).and_then(|v| match v { Value::Pointer(p) => p.value.map(|x| x as usize as u64), _ => None })
}
fn first_scalar(v: &Value) -> Option<u64> {
    match v {
        Value::Scalar(_) => scalar_u64(v),
        Value::Struct(s) => s.members.first().and_then(|m| first_scalar(&m.value)),
        _ => None,
    }
}

pub struct Walker<'a> {
    pub pid: Pid,
    pub enums: &'a HashMap<String, EnumInfo>,
    pub decls: &'a Decls,
    pub var: String,
    pub out: &'a mut Collected,
    pub int_budget: usize,
    pub collect: bool,
    /// (type, len field, capacity field) of every Vec / VecDeque / String / &str met (used to attribute differences)
    pub headers: Vec<(String, u64, u64)>,
}

fn le_num(b: &[u8]) -> u128 {
    let mut x = 0u128;
    for (i, v) in b.iter().enumerate().take(16) { x |= (*v as u128) << (8 * i); }
    x
}

impl<'a> Walker<'a> {
    fn meta(&self, what: &str, ty: &str) -> serde_json::Value {
        serde_json::json!({"var": self.var, "what": what, "type": ty})
    }

    fn int_case(&mut self, addr: Option<usize>, signed: bool, size: usize, dec: &str, ty: &str) {
        if !self.collect || self.int_budget == 0 { return; }
        let Some(addr) = addr else { self.out.note("int:no-address"); return };
        self.int_budget -= 1;
        match e2e::proc_mem_read(self.pid, addr as u64, size) {
            Ok(bytes) => {
                let case = format!("({}, {}, {}, {})", cf::boolean(signed), cf::n(size as u128), cf::bytes(&bytes), zdec(dec));
                let m = self.meta("int", ty);
                self.out.ints.push((case, m));
            }
            Err(_) => self.out.note("int:unreadable"),
        }
    }

    fn scalar(&mut self, s: &bugstalker::debugger::variable::value::ScalarValue) -> C {
        let ty = norm_ty(s.type_ident.name_fmt());
        let Some(v) = s.value.as_ref() else { return C::Bad(format!("{ty}: no value")) };
        let mut int = |w: &mut Self, signed: bool, size: usize, dec: String| -> C {
            w.int_case(s.raw_address, signed, size, &dec, &ty);
            C::Int { ty: ty.clone(), v: dec }
        };
        match v {
            SupportedScalar::I8(x) => int(self, true, 1, x.to_string()),
            SupportedScalar::I16(x) => int(self, true, 2, x.to_string()),
            SupportedScalar::I32(x) => int(self, true, 4, x.to_string()),
            SupportedScalar::I64(x) => int(self, true, 8, x.to_string()),
            SupportedScalar::I128(x) => int(self, true, 16, x.to_string()),
            SupportedScalar::Isize(x) => int(self, true, 8, x.to_string()),
            SupportedScalar::U8(x) => int(self, false, 1, x.to_string()),
            SupportedScalar::U16(x) => int(self, false, 2, x.to_string()),
            SupportedScalar::U32(x) => int(self, false, 4, x.to_string()),
            SupportedScalar::U64(x) => int(self, false, 8, x.to_string()),
            SupportedScalar::U128(x) => int(self, false, 16, x.to_string()),
            SupportedScalar::Usize(x) => int(self, false, 8, x.to_string()),
            SupportedScalar::F32(x) => C::Float { ty, bits: x.to_bits() as u64 },
            SupportedScalar::F64(x) => C::Float { ty, bits: x.to_bits() },
            SupportedScalar::Bool(b) => C::Bool(*b),
            SupportedScalar::Char(c) => C::Char(*c as u32),
            SupportedScalar::Empty() => C::Unit,
        }
    }

    fn members(&mut self, pcx: &Pcx, s: &StructValue, exp: Option<Vec<(String, (&Ty, &Val))>>) -> Vec<(String, C)> {
        s.members
            .iter()
            .map(|m| {
                let n = m.field_name.clone().unwrap_or_else(|| "?".into());
                let e = exp.as_ref().and_then(|fs| fs.iter().find(|f| f.0 == n).map(|f| f.1));
                let c = self.walk(pcx, &m.value, e);
                (n, c)
            })
            .collect()
    }

    /// expected fields of a struct-like expected value
    fn exp_fields<'e>(&self, exp: Option<(&'e Ty, &'e Val)>) -> Option<Vec<(String, (&'e Ty, &'e Val))>>
    where 'a: 'e {
        let (t, v) = exp?;
        match (t, v) {
            (Ty::Tuple(ts), Val::Tuple(vs)) => Some(ts.iter().zip(vs).enumerate().map(|(i, (t, v))| (format!("__{i}"), (t, v))).collect()),
            (Ty::Struct(i), Val::Tuple(vs)) => Some(self.decls.structs[*i].fields.iter().zip(vs).map(|((n, t), v)| (n.clone(), (t, v))).collect()),
            (Ty::Generic(a, b), Val::Tuple(vs)) => Some(vec![("a".to_string(), (&**a, &vs[0])), ("b".to_string(), (&**b, &vs[1]))]),
            _ => None,
        }
    }

    fn seq_items(&mut self, pcx: &Pcx, arr: &Value, exp_items: Option<(&Ty, &[Val])>) -> Result<Vec<C>, String> {
        let Value::Array(a) = arr else { return Err("not an array".into()) };
        let Some(items) = a.items.as_ref() else { return Err("array without items".into()) };
        let mut out = Vec::with_capacity(items.len());
        for (pos, it) in items.iter().enumerate() {
            if it.index != pos as i64 {
                out.push(C::Bad(format!("index {} at position {pos}", it.index)));
                continue;
            }
            let e = exp_items.and_then(|(t, vs)| vs.get(pos).map(|v| (t, v)));
            out.push(self.walk(pcx, &it.value, e));
        }
        Ok(out)
    }

    fn item_addrs(arr: &Value) -> Vec<Option<usize>> {
        match arr {
            Value::Array(a) => a.items.as_ref().map(|v| v.iter().map(|it| it.value.in_memory_location()).collect()).unwrap_or_default(),
            _ => vec![],
        }
    }

    fn type_param_size(pcx: &Pcx, s: &StructValue, p: &str) -> Option<u64> {
        let tid = (*s.type_params.get(p)?)?;
        pcx.type_graph.type_size_in_bytes(pcx.evcx, tid)
    }

    fn vec_case(&mut self, pcx: &Pcx, original: &StructValue, shown: &StructValue, ty: &str) {
        let root = Value::Struct(original.clone());
        let (Some(len), Some(ptr), Some(el)) = (bfs_number(&root, "len"), bfs_pointer(&root, "pointer"), Self::type_param_size(pcx, original, "T")) else { self.out.note("vec:header-unreadable"); return };
        self.headers.push((ty.to_string(), len, 0));
        if !self.collect { return; }
        let want = (len.min(10_001) as u128 * el as u128).min(4_000_000) as usize;
        let Ok(buf) = e2e::proc_mem_read(self.pid, ptr, want) else { self.out.note("vec:buffer-unreadable"); return };
        let addrs = shown.members.first().map(|m| Self::item_addrs(&m.value)).unwrap_or_default();
        let got: Vec<u128> = if el == 0 { (0..addrs.len() as u128).collect() } else {
            let mut g = vec![];
            for a in &addrs { match a { Some(a) => g.push(((*a as u64).wrapping_sub(ptr) / el) as u128), None => { self.out.note("vec:item-without-address"); return } } }
            g
        };
        let case = format!("({}, {}, {}, {})", cf::n(len as u128), cf::n(el as u128), buf_term(&buf), cf::list(&got, |x| cf::n(*x)));
        let mut m = self.meta("vec", ty);
        m["len"] = len.into();
        self.out.vecs.push((case, m));
    }

    fn str_case(&mut self, original: &StructValue, shown_len: usize, len_field: &str, ptr_field: &str, ty: &str) {
        let root = Value::Struct(original.clone());
        let (Some(len), Some(ptr)) = (bfs_number(&root, len_field), bfs_pointer(&root, ptr_field)) else { self.out.note("str:header-unreadable"); return };
        self.headers.push((ty.to_string(), len, 0));
        if !self.collect { return; }
        let Ok(buf) = e2e::proc_mem_read(self.pid, ptr, len.min(10_001) as usize) else { self.out.note("str:buffer-unreadable"); return };
        let got: Vec<u128> = (0..shown_len as u128).collect();
        let case = format!("({}, 1%N, {}, {})", cf::n(len as u128), buf_term(&buf), cf::list(&got, |x| cf::n(*x)));
        let mut m = self.meta("str", ty);
        m["len"] = len.into();
        self.out.vecs.push((case, m));
    }

    fn vd_case(&mut self, pcx: &Pcx, original: &StructValue, shown: &StructValue, ty: &str) {
        let root = Value::Struct(original.clone());
        let cap = bfs_field(&root, "cap", &|v| matches!(v, Value::Struct(_))).and_then(first_scalar);
        let (Some(len), Some(head), Some(cap), Some(ptr), Some(el)) = (bfs_number(&root, "len"), bfs_number(&root, "head"), cap, bfs_pointer(&root, "pointer"), Self::type_param_size(pcx, original, "T")) else { self.out.note("vd:header-unreadable"); return };
        self.headers.push((ty.to_string(), len, cap));
        if !self.collect { return; }
        let want = if el == 0 { 0 } else { (cap as u128 * el as u128).min(4_000_000) as usize };
        let Ok(buf) = e2e::proc_mem_read(self.pid, ptr, want) else { self.out.note("vd:buffer-unreadable"); return };
        let addrs = shown.members.first().map(|m| Self::item_addrs(&m.value)).unwrap_or_default();
        let got: Vec<u128> = if el == 0 { addrs.iter().map(|_| 0u128).collect() } else {
            let mut g = vec![];
            for a in &addrs { match a { Some(a) => g.push(((*a as u64).wrapping_sub(ptr) / el) as u128), None => { self.out.note("vd:item-without-address"); return } } }
            g
        };
        let case = format!("({}, {}, {}, {}, {}, {})", cf::n(len as u128), cf::n(cap as u128), cf::n(head as u128), cf::n(el as u128), buf_term(&buf), cf::list(&got, |x| cf::n(*x)));
        let mut m = self.meta("vecdeque", ty);
        m["len"] = len.into();
        m["cap"] = cap.into();
        m["head"] = head.into();
        self.out.vds.push((case, m));
    }

    /// `locs`: address of the bucket of every entry shown, in order
    fn hb_case(&mut self, pcx: &Pcx, original: &StructValue, locs: Vec<Option<usize>>, ty: &str) {
        if !self.collect { return; }
        let root = Value::Struct(original.clone());
        let table = bfs_field(&root, "table", &|v| matches!(v, Value::Struct(_)));
        let size = table.and_then(|t| match t { Value::Struct(s) => Self::type_param_size(pcx, s, "T"), _ => None });
        let (Some(mask), Some(items), Some(ctrl), Some(size)) = (bfs_number(&root, "bucket_mask"), bfs_number(&root, "items"), bfs_pointer(&root, "pointer"), size) else { self.out.note("hb:header-unreadable"); return };
        if mask > 1_000_000 { self.out.note("hb:mask-too-big"); return; }
        let Ok(cbytes) = e2e::proc_mem_read(self.pid, ctrl, mask as usize + 1 + 16) else { self.out.note("hb:ctrl-unreadable"); return };
        let mut got: Vec<String> = vec![];
        for l in &locs {
            match l { Some(a) => got.push(zdec(&(*a as i128 - ctrl as i128).to_string())), None => { self.out.note("hb:entry-without-address"); return } }
        }
        let case = format!("({}, {}, {}, {}, [{}])", cf::n(mask as u128), cf::n(size as u128), cf::n(items as u128), cf::bytes(&cbytes), got.join("; "));
        let mut m = self.meta("hashbrown", ty);
        m["buckets"] = (mask + 1).into();
        m["items"] = items.into();
        m["tombstones"] = cbytes[..mask as usize + 1].iter().filter(|b| **b == 0x80).count().into();
        self.out.hbs.push((case, m));
    }

    /// B-tree with integer keys of at most 8 bytes: node heap read by the harness
    fn bt_case(&mut self, pcx: &Pcx, original: &StructValue, shown_keys: &[C], truth: Option<Vec<u128>>, ty: &str) {
        if !self.collect { return; }
        let Some(truth) = truth else { self.out.note("bt:no-ground-truth"); return };
        let root_v = Value::Struct(original.clone());
        let (Some(ks), Some(vs)) = (Self::type_param_size(pcx, original, "K"), Self::type_param_size(pcx, original, "V")) else { self.out.note("bt:no-sizes"); return };
        if ks == 0 || ks > 8 { self.out.note("bt:key-size-unsupported"); return; }
        let mut got: Vec<u128> = vec![];
        for k in shown_keys {
            match k {
                C::Int { v, .. } => {
                    let pat = if let Some(neg) = v.strip_prefix('-') { (neg.parse::<u128>().unwrap_or(0)).wrapping_neg() } else { v.parse::<u128>().unwrap_or(0) };
                    got.push(pat & ((1u128 << (8 * ks)) - 1));
                }
                _ => { self.out.note("bt:non-integer-key"); return }
            }
        }
        let height = bfs_number(&root_v, "height");
        let node_ptr = bfs_field(&root_v, "pointer", &|v| matches!(v, Value::Pointer(p) if p.value.is_some()));
        let (Some(height), Some(Value::Pointer(node_ptr))) = (height, node_ptr) else {
            // empty map: root = None
            if truth.is_empty() && got.is_empty() { self.out.note("bt:empty-root-none"); } else { self.out.note("bt:no-root"); }
            return;
        };
        // layout of LeafNode<K, V> from the generic structure parser: member addresses of the dereferenced root
        let Some(Value::Struct(leaf)) = node_ptr.deref(pcx) else { self.out.note("bt:leaf-deref-failed"); return };
        let Some(base) = leaf.raw_address else { self.out.note("bt:leaf-no-address"); return };
        let off = |n: &str| leaf.members.iter().find(|m| m.field_name.as_deref() == Some(n)).and_then(|m| m.value.in_memory_location()).map(|a| (a - base) as u64);
        let (Some(o_parent), Some(o_pidx), Some(o_len), Some(o_keys)) = (off("parent"), off("parent_idx"), off("len"), off("keys")) else { self.out.note("bt:leaf-layout"); return };
        let Some(leaf_size) = node_ptr.target_type.and_then(|t| pcx.type_graph.type_size_in_bytes(pcx.evcx, t)) else { self.out.note("bt:leaf-size"); return };
        let leaf_size = (leaf_size + 7) / 8 * 8;
        let root = node_ptr.value.unwrap() as usize as u64;
        let mut heap: Vec<String> = vec![];
        let mut stack = vec![(root, height)];
        let mut nodes = 0usize;
        while let Some((addr, h)) = stack.pop() {
            nodes += 1;
            if nodes > 2000 { self.out.note("bt:too-many-nodes"); return; }
            let sz = if h > 0 { leaf_size + 12 * 8 } else { leaf_size } as usize;
            let Ok(b) = e2e::proc_mem_read(self.pid, addr, sz) else { self.out.note("bt:node-unreadable"); return };
            let parent = le_num(&b[o_parent as usize..o_parent as usize + 8]);
            let pidx = le_num(&b[o_pidx as usize..o_pidx as usize + 2]);
            let len = le_num(&b[o_len as usize..o_len as usize + 2]);
            let keys: Vec<u128> = (0..11).map(|i| le_num(&b[(o_keys + i * ks) as usize..(o_keys + (i + 1) * ks) as usize])).collect();
            let edges: Vec<u128> = if h > 0 { (0..12).map(|i| le_num(&b[(leaf_size + i * 8) as usize..(leaf_size + i * 8 + 8) as usize])).collect() } else { vec![] };
            if h > 0 {
                for i in 0..=(len.min(11)) as usize { stack.push((edges[i] as u64, h - 1)); }
            }
            heap.push(format!("({}, mkNode {} {} {} {} {})", cf::n(addr as u128), cf::n(parent), cf::n(pidx), cf::n(len), cf::list(&edges, |x| cf::n(*x)), cf::list(&keys, |x| cf::n(*x))));
        }
        let case = format!("([{}], {}, {}, {}, {}, {}, {})", heap.join("; "), cf::n(root as u128), cf::n(height as u128), cf::n(ks as u128), cf::n(vs as u128), cf::list(&truth, |x| cf::n(*x)), cf::list(&got, |x| cf::n(*x)));
        let mut m = self.meta("btree", ty);
        m["nodes"] = nodes.into();
        m["height"] = height.into();
        m["pairs"] = truth.len().into();
        self.out.bts.push((case, m));
    }

    fn enum_case(&mut self, e: &bugstalker::debugger::variable::value::RustEnumValue, truth_variant: Option<&str>, ty_norm: &str) {
        if !self.collect { return; }
        let Some(truth_variant) = truth_variant else { self.out.note("enum:no-ground-truth"); return };
        let raw_name = e.type_ident.name_fmt();
        let Some(info) = self.enums.get(raw_name) else { self.out.note("enum:no-dwarf-info"); return };
        let Some(addr) = e.raw_address else { self.out.note("enum:no-address"); return };
        if info.tag_size == 0 || info.tag_size > 8 { self.out.note("enum:tag-size-unsupported"); return; }
        let Ok(tag) = e2e::proc_mem_read(self.pid, addr as u64 + info.tag_offset, info.tag_size as usize) else { self.out.note("enum:tag-unreadable"); return };
        let Some(truth) = info.variants.iter().position(|v| v.member == truth_variant) else { self.out.note("enum:truth-variant-not-in-dwarf"); return };
        let got = e.value.as_ref().and_then(|m| m.field_name.as_ref()).and_then(|n| info.variants.iter().position(|v| &v.member == n));
        let variants = cf::list(&info.variants.iter().enumerate().collect::<Vec<_>>(), |(i, v)| {
            let d = match &v.discr { Some((f, raw)) => format!("Some ({f}, {})", zdec(&raw.to_string())), None => "None".into() };
            format!("({d}, {})", cf::n(*i as u128))
        });
        let case = format!("({}, {}, {}, {}, {}, {})", cf::boolean(info.tag_signed), cf::n(info.tag_size as u128), variants, cf::bytes(&tag), cf::n(truth as u128), cf::option(&got, |x| cf::n(*x as u128)));
        let mut m = self.meta("enum", ty_norm);
        m["tag_signed"] = info.tag_signed.into();
        m["tag_size"] = info.tag_size.into();
        m["tag"] = (le_num(&tag) as u64).into();
        m["variants"] = info.variants.len().into();
        m["truth_discr"] = match &info.variants[truth].discr { Some((f, raw)) => serde_json::json!({"form": f, "raw": raw.to_string()}), None => serde_json::Value::Null };
        self.out.enums.push((case, m));
    }

    fn int_pattern(v: &Val, ks: u32) -> Option<u128> {
        match v { Val::Int(x) => Some(x.pattern(ks)), _ => None }
    }

    pub fn walk(&mut self, pcx: &Pcx, v: &Value, exp: Option<(&Ty, &Val)>) -> C {
        match v {
            Value::Scalar(s) => self.scalar(s),
            Value::Struct(s) => {
                let ty = norm_ty(s.type_ident.name_fmt());
                // fat pointers to slices: data_ptr + length
                let dp = s.members.iter().find(|m| m.field_name.as_deref() == Some("data_ptr"));
                let ln = s.members.iter().find(|m| m.field_name.as_deref() == Some("length"));
                if let (Some(dp), Some(ln), true) = (dp, ln, ty.starts_with("&[") || ty.starts_with("&mut [") || ty.starts_with("Box<[")) {
                    let (Value::Pointer(p), Some(n)) = (&dp.value, scalar_u64(&ln.value)) else { return C::Bad(format!("{ty}: fat pointer fields unreadable")) };
                    if n == 0 { return C::Seq { ty, items: vec![] }; }
                    // a panic inside the debugger is a finding, not a reason to lose the run
                    let arr = match std::panic::catch_unwind(std::panic::AssertUnwindSafe(|| p.slice(pcx, None, n as usize))) {
                        Ok(Some(a)) => a,
                        Ok(None) if p.target_type_size == Some(0) => {
                            // elements of a zero-sized type occupy no memory: PointerValue::slice has nothing to read. Such a type has one
                            // value only, determined by the type; the length (read by the debugger from the fat pointer) is what is checked
                            return match exp {
                                Some((Ty::Slice(t), Val::Seq(vs))) if vs.len() == n as usize => C::Seq { ty, items: vs.iter().map(|v| exp_canon(self.decls, t, v)).collect() },
                                _ => C::Bad(format!("{ty}: {n} zero-sized elements, the program holds another number")),
                            };
                        }
                        Ok(None) => return C::Bad(format!("{ty}: slice failed")),
                        Err(_) => return C::Bad(format!("{ty}: PANIC in PointerValue::slice")),
                    };
                    let e = match exp { Some((Ty::Slice(t), Val::Seq(vs))) => Some((&**t, vs.as_slice())), _ => None };
                    return match self.seq_items(pcx, &arr, e) { Ok(items) => C::Seq { ty, items }, Err(e) => C::Bad(format!("{ty}: {e}")) };
                }
                if ty.starts_with("NonZero<") {
                    // transparent wrapper chain down to the number
                    let mut cur: &Value = v;
                    loop {
                        match cur {
                            Value::Struct(s) if s.members.len() == 1 => cur = &s.members[0].value,
                            Value::Scalar(sc) => return C::Struct { ty, fields: vec![("0".into(), self.scalar(sc))] },
                            _ => return C::Bad(format!("{ty}: unexpected shape")),
                        }
                    }
                }
                let ef = self.exp_fields(exp);
                C::Struct { ty, fields: self.members(pcx, s, ef) }
            }
            Value::Array(a) => {
                let ty = norm_ty(a.type_ident.name_fmt());
                let e = match exp { Some((Ty::Array(t, _), Val::Seq(vs))) => Some((&**t, vs.as_slice())), _ => None };
                match self.seq_items(pcx, v, e) { Ok(items) => C::Seq { ty, items }, Err(e) => C::Bad(format!("{ty}: {e}")) }
            }
            Value::CEnum(e) => {
                let ty = norm_ty(e.type_ident.name_fmt());
                match &e.value { Some(n) => C::CEnum { ty, variant: n.clone() }, None => C::Bad(format!("{ty}: no variant shown")) }
            }
            Value::RustEnum(e) => {
                let ty = norm_ty(e.type_ident.name_fmt());
                // expected variant name and fields
                let (truth_name, exp_fields): (Option<String>, Option<Vec<(String, (&Ty, &Val))>>) = match exp {
                    Some((Ty::Opt(_), Val::None)) => (Some("None".into()), Some(vec![])),
                    Some((Ty::Opt(t), Val::Some(x))) => (Some("Some".into()), Some(vec![("__0".to_string(), (&**t, &**x))])),
                    Some((Ty::DEnum(i), Val::DEnum(vi, vs))) => {
                        let var = &self.decls.denums[*i].variants[*vi];
                        (Some(var.name.clone()), Some(var.fields.iter().zip(vs).map(|((n, t), v)| (n.clone(), (t, v))).collect()))
                    }
                    _ => (None, None),
                };
                self.enum_case(e, truth_name.as_deref(), &ty);
                let Some(m) = e.value.as_ref() else { return C::Bad(format!("{ty}: no variant shown")) };
                let variant = m.field_name.clone().unwrap_or_else(|| "?".into());
                let ef = if truth_name.as_deref() == Some(variant.as_str()) { exp_fields } else { None };
                let fields = match &m.value {
                    Value::Struct(s) => self.members(pcx, s, ef),
                    other => vec![("".to_string(), self.walk(pcx, other, None))],
                };
                C::Enum { ty, variant, fields }
            }
            Value::Pointer(p) => self.pointer(pcx, p, norm_ty(p.type_ident.name_fmt()), exp, false),
            Value::Subroutine(_) => C::Bad("subroutine".into()),
            Value::CModifiedVariable(m) => match m.value.as_ref() { Some(inner) => self.walk(pcx, inner, exp), None => C::Bad("modified type without value".into()) },
            Value::Specialized { value: None, original } => C::Bad(format!("{}: not interpreted", norm_ty(original.type_ident.name_fmt()))),
            Value::Specialized { value: Some(sv), original } => {
                let ty = norm_ty(v.r#type().name_fmt());
                match sv {
                    SpecializedValue::Vector(vec) => {
                        self.vec_case(pcx, original, &vec.structure, &ty);
                        let e = match exp { Some((Ty::Vec(t), Val::Seq(vs))) => Some((&**t, vs.as_slice())), _ => None };
                        let Some(buf) = vec.structure.members.first() else { return C::Bad(format!("{ty}: no buf")) };
                        match self.seq_items(pcx, &buf.value, e) { Ok(items) => C::Seq { ty, items }, Err(e) => C::Bad(format!("{ty}: {e}")) }
                    }
                    SpecializedValue::VecDeque(vec) => {
                        self.vd_case(pcx, original, &vec.structure, &ty);
                        let e = match exp { Some((Ty::VecDeque(t), Val::Deque { content, .. })) => Some((&**t, content.as_slice())), _ => None };
                        let Some(buf) = vec.structure.members.first() else { return C::Bad(format!("{ty}: no buf")) };
                        match self.seq_items(pcx, &buf.value, e) { Ok(items) => C::Seq { ty, items }, Err(e) => C::Bad(format!("{ty}: {e}")) }
                    }
                    SpecializedValue::String(s) => { self.str_case(original, s.value.len(), "len", "pointer", &ty); C::Str { ty, s: s.value.clone() } }
                    SpecializedValue::Str(s) => { self.str_case(original, s.value.len(), "length", "data_ptr", &ty); C::Str { ty, s: s.value.clone() } }
                    SpecializedValue::HashMap(map) | SpecializedValue::BTreeMap(map) => {
                        let hash = matches!(sv, SpecializedValue::HashMap(_));
                        let (kt, vt, content): (Option<&Ty>, Option<&Ty>, Option<&Vec<(Val, Val)>>) = match exp {
                            Some((Ty::HashMap(k, v), Val::Map { content, .. })) | Some((Ty::BTreeMap(k, v), Val::Map { content, .. })) => (Some(&**k), Some(&**v), Some(content)),
                            _ => (None, None, None),
                        };
                        let exp_keys: Vec<C> = match (kt, content) { (Some(kt), Some(c)) => c.iter().map(|(k, _)| exp_canon(self.decls, kt, k)).collect(), _ => vec![] };
                        let mut kv = vec![];
                        let mut locs = vec![];
                        for (k, val) in &map.kv_items {
                            locs.push(match (k.in_memory_location(), val.in_memory_location()) { (Some(a), Some(b)) => Some(a.min(b)), (Some(a), None) => Some(a), (None, Some(b)) => Some(b), _ => None });
                            let save = self.collect;
                            self.collect = false; // keys are walked once without pairing to find the expected entry
                            let kc0 = self.walk(pcx, k, None);
                            self.collect = save;
                            let pos = exp_keys.iter().position(|x| *x == kc0);
                            let ek = pos.and_then(|p| Some((kt?, &content?[p].0)));
                            let ev = pos.and_then(|p| Some((vt?, &content?[p].1)));
                            let kc = self.walk(pcx, k, ek);
                            let vc = self.walk(pcx, val, ev);
                            kv.push((kc, vc));
                        }
                        if hash {
                            self.hb_case(pcx, original, locs, &ty);
                            kv.sort();
                        } else {
                            let keys: Vec<C> = kv.iter().map(|p| p.0.clone()).collect();
                            let truth = match (kt, content) {
                                (Some(Ty::Int(k)), Some(c)) if k.bits() <= 64 => c.iter().map(|(key, _)| Self::int_pattern(key, k.bits())).collect::<Option<Vec<u128>>>(),
                                _ => None,
                            };
                            if matches!(kt, Some(Ty::Int(k)) if k.bits() <= 64) { self.bt_case(pcx, original, &keys, truth, &ty); }
                        }
                        C::Map { ty, kv }
                    }
                    SpecializedValue::HashSet(set) | SpecializedValue::BTreeSet(set) => {
                        let hash = matches!(sv, SpecializedValue::HashSet(_));
                        let (kt, content): (Option<&Ty>, Option<&Vec<Val>>) = match exp {
                            Some((Ty::HashSet(k), Val::Set { content, .. })) | Some((Ty::BTreeSet(k), Val::Set { content, .. })) => (Some(&**k), Some(content)),
                            _ => (None, None),
                        };
                        let exp_keys: Vec<C> = match (kt, content) { (Some(kt), Some(c)) => c.iter().map(|k| exp_canon(self.decls, kt, k)).collect(), _ => vec![] };
                        let mut items = vec![];
                        let mut locs = vec![];
                        for k in &set.items {
                            locs.push(k.in_memory_location());
                            let save = self.collect;
                            self.collect = false;
                            let kc0 = self.walk(pcx, k, None);
                            self.collect = save;
                            let pos = exp_keys.iter().position(|x| *x == kc0);
                            let ek = pos.and_then(|p| Some((kt?, &content?[p])));
                            items.push(self.walk(pcx, k, ek));
                        }
                        if hash {
                            self.hb_case(pcx, original, locs, &ty);
                            items.sort();
                        } else if let Some(Ty::Int(k)) = kt {
                            if k.bits() <= 64 {
                                let truth = content.and_then(|c| c.iter().map(|key| Self::int_pattern(key, k.bits())).collect::<Option<Vec<u128>>>());
                                // BTreeSet<T> { map: BTreeMap<T, SetValZST> }: the map's structure holds root/length and the K, V parameters
                                let inner = bfs_field(&Value::Struct(original.clone()), "map", &|v| matches!(v, Value::Specialized { .. })).and_then(|m| match m { Value::Specialized { original, .. } => Some(original.clone()), _ => None });
                                match inner { Some(inner) => self.bt_case(pcx, &inner, &items, truth, &ty), None => self.out.note("bt:set-without-map") }
                            }
                        }
                        C::Set { ty, items }
                    }
                    SpecializedValue::Cell(inner) => {
                        let e = match exp { Some((Ty::Cell(t), Val::Cell(x))) => Some((&**t, &**x)), _ => None };
                        C::Struct { ty, fields: vec![("value".into(), self.walk(pcx, inner, e))] }
                    }
                    SpecializedValue::RefCell(inner) => {
                        // Struct { borrow, value }
                        match &**inner {
                            Value::Struct(s) => {
                                let fields = s.members.iter().map(|m| {
                                    let n = m.field_name.clone().unwrap_or_else(|| "?".into());
                                    let e = match (n.as_str(), exp) { ("value", Some((Ty::RefCell(t), Val::Cell(x)))) => Some((&**t, &**x)), _ => None };
                                    let c = self.walk(pcx, &m.value, e);
                                    (n, c)
                                }).collect();
                                C::Struct { ty, fields }
                            }
                            other => self.walk(pcx, other, None),
                        }
                    }
                    SpecializedValue::Rc(p) | SpecializedValue::Arc(p) => self.pointer(pcx, p, ty, exp, true),
                    _ => C::Bad(format!("{ty}: specialisation outside the grammar")),
                }
            }
        }
    }

    fn pointer(&mut self, pcx: &Pcx, p: &PointerValue, ty: String, exp: Option<(&Ty, &Val)>, counted: bool) -> C {
        if p.value.is_none() { return C::Bad(format!("{ty}: pointer without value")); }
        let e = match exp {
            Some((Ty::Box(t), Val::Ptr(x))) | Some((Ty::Rc(t), Val::Ptr(x))) | Some((Ty::Arc(t), Val::Ptr(x))) | Some((Ty::Ref(t), Val::Ptr(x)))
            | Some((Ty::RefMut(t), Val::Ptr(x))) | Some((Ty::RawConst(t), Val::Ptr(x))) | Some((Ty::RawMut(t), Val::Ptr(x))) => Some((&**t, &**x)),
            _ => None,
        };
        let Some(target) = p.deref(pcx) else { return C::Bad(format!("{ty}: dereference failed")) };
        if counted {
            // RcInner / ArcInner { strong, weak, value|data }
            let Value::Struct(inner) = &target else { return C::Bad(format!("{ty}: inner block is not a structure")) };
            let Some(m) = inner.members.iter().find(|m| matches!(m.field_name.as_deref(), Some("value") | Some("data"))) else { return C::Bad(format!("{ty}: inner block without value")) };
            return C::Ptr { ty, to: Box::new(self.walk(pcx, &m.value, e)) };
        }
        C::Ptr { ty, to: Box::new(self.walk(pcx, &target, e)) }
    }
}

// ------------------------------------------------------------------------------------------
// program plans
// ------------------------------------------------------------------------------------------
/// the fixed coverage programs: every production of the grammar at least once (quick tier runs these)
fn coverage_program(idx: usize, rng: &mut Rng) -> Program {
    let mut gn = Gen::new(rng);
    let mut tys: Vec<Ty> = vec![];
    let b = |t: Ty| Box::new(t);
    match idx {
        0 => {
            for k in g::INT_KINDS { tys.push(Ty::Int(k)); tys.push(Ty::Int(k)); }
            tys.extend([Ty::F32, Ty::F32, Ty::F64, Ty::F64, Ty::Bool, Ty::Char, Ty::Char, Ty::Unit, Ty::Str, Ty::String, Ty::NonZeroU32]);
            tys.push(Ty::Tuple(vec![Ty::Int(IntK::I8), Ty::Int(IntK::U64), Ty::Char]));
            tys.push(Ty::Array(b(Ty::Int(IntK::I16)), 3));
            tys.push(Ty::Array(b(Ty::Unit), 2));
            tys.push(Ty::Slice(b(Ty::Int(IntK::U32))));
            tys.push(Ty::Opt(b(Ty::NonZeroU32)));
            tys.push(Ty::Opt(b(Ty::Ref(b(Ty::Int(IntK::U16))))));
            tys.push(Ty::Opt(b(Ty::Box(b(Ty::String)))));
            tys.push(Ty::Opt(b(Ty::Bool)));
            tys.push(Ty::Opt(b(Ty::Char)));
            tys.push(Ty::Opt(b(Ty::String)));
            tys.push(Ty::Opt(b(Ty::Int(IntK::U8))));
        }
        1 => {
            // enums: every C-like shape, options of them (niche in the tag), data enums with high tags
            for _ in 0..14 { let i = gen_cenum(&mut gn); tys.push(Ty::CEnum(i)); tys.push(Ty::Opt(b(Ty::CEnum(i)))); }
            for _ in 0..8 { let t = gn.ty(1); if let Ty::DEnum(_) = t { tys.push(t); } }
            for _ in 0..40 { if tys.iter().filter(|t| matches!(t, Ty::DEnum(_))).count() >= 8 { break; } let t = gn.ty(1); if let Ty::DEnum(_) = t { tys.push(t.clone()); tys.push(Ty::Opt(b(t))); } }
        }
        2 => {
            // sequences
            for k in [IntK::U8, IntK::I32, IntK::U64, IntK::I128] { tys.push(Ty::Vec(b(Ty::Int(k)))); tys.push(Ty::VecDeque(b(Ty::Int(k)))); tys.push(Ty::VecDeque(b(Ty::Int(k)))); }
            for _ in 0..6 { tys.push(Ty::VecDeque(b(Ty::Int(IntK::U64)))); tys.push(Ty::VecDeque(b(Ty::Int(IntK::U32)))); }
            tys.push(Ty::Vec(b(Ty::Unit))); tys.push(Ty::VecDeque(b(Ty::Unit))); tys.push(Ty::Vec(b(Ty::String))); tys.push(Ty::VecDeque(b(Ty::String)));
            tys.push(Ty::Vec(b(Ty::Vec(b(Ty::Int(IntK::U16)))))); tys.push(Ty::VecDeque(b(Ty::Tuple(vec![Ty::Int(IntK::U8), Ty::Int(IntK::I64)]))));
            tys.push(Ty::Vec(b(Ty::Opt(b(Ty::Ref(b(Ty::Int(IntK::I8))))))));
        }
        3 => {
            // hash tables: each size class with and without removals
            for _ in 0..10 { tys.push(Ty::HashMap(b(Ty::Int(IntK::U64)), b(Ty::Int(IntK::U32)))); }
            for _ in 0..5 { tys.push(Ty::HashSet(b(Ty::Int(IntK::I32)))); }
            tys.push(Ty::HashMap(b(Ty::String), b(Ty::String)));
            tys.push(Ty::HashMap(b(Ty::Str), b(Ty::Vec(b(Ty::Int(IntK::U8))))));
            tys.push(Ty::HashMap(b(Ty::Tuple(vec![Ty::Int(IntK::U8), Ty::Char])), b(Ty::Unit)));
            tys.push(Ty::HashSet(b(Ty::String)));
            tys.push(Ty::HashSet(b(Ty::Char)));
            tys.push(Ty::HashMap(b(Ty::Int(IntK::U8)), b(Ty::Int(IntK::U8))));
            tys.push(Ty::HashMap(b(Ty::Int(IntK::U16)), b(Ty::HashSet(b(Ty::Int(IntK::U16))))));
        }
        4 => {
            // B-trees: 1 leaf / 2 / 3 levels
            for _ in 0..9 { tys.push(Ty::BTreeMap(b(Ty::Int(IntK::U64)), b(Ty::Int(IntK::U16)))); }
            for _ in 0..4 { tys.push(Ty::BTreeSet(b(Ty::Int(IntK::I32)))); }
            tys.push(Ty::BTreeMap(b(Ty::Int(IntK::I16)), b(Ty::Int(IntK::I64))));
            tys.push(Ty::BTreeMap(b(Ty::String), b(Ty::Int(IntK::U8))));
            tys.push(Ty::BTreeMap(b(Ty::Int(IntK::U32)), b(Ty::String)));
            tys.push(Ty::BTreeSet(b(Ty::Char)));
            tys.push(Ty::BTreeMap(b(Ty::Int(IntK::I128)), b(Ty::Unit)));
            tys.push(Ty::BTreeMap(b(Ty::Int(IntK::U32)), b(Ty::BTreeSet(b(Ty::Int(IntK::U8))))));
        }
        _ => {
            // pointers, cells, nesting
            let s = Ty::Tuple(vec![Ty::Int(IntK::I32), Ty::String]);
            for t in [Ty::Box(b(s.clone())), Ty::Rc(b(s.clone())), Ty::Arc(b(s.clone())), Ty::Ref(b(s.clone())), Ty::RefMut(b(Ty::Int(IntK::U32))), Ty::RawConst(b(Ty::Int(IntK::U64))), Ty::RawMut(b(s.clone())),
                      Ty::Cell(b(Ty::Int(IntK::I32))), Ty::Cell(b(Ty::Bool)), Ty::RefCell(b(Ty::Vec(b(Ty::Int(IntK::U8))))), Ty::RefCell(b(Ty::String)), Ty::Rc(b(Ty::RefCell(b(Ty::Int(IntK::I64))))),
                      Ty::Arc(b(Ty::Vec(b(Ty::String)))), Ty::Box(b(Ty::Box(b(Ty::Int(IntK::U8))))), Ty::Ref(b(Ty::Ref(b(Ty::Str)))), Ty::Generic(b(Ty::Int(IntK::I8)), b(Ty::String))] {
                tys.push(t);
            }
            for _ in 0..8 { let t = gn.ty(2); tys.push(t); }
        }
    }
    finish_program(gn, tys)
}

fn gen_cenum(gn: &mut Gen) -> usize {
    // key_ty with depth 1 creates enums among others; ask until one appears
    loop {
        if let Ty::CEnum(i) = gn.ty(0) { return i; }
    }
}

fn fix_cells(t: Ty) -> Ty {
    // Cell<T>: Debug needs T: Copy -> integers only
    match t {
        Ty::Cell(inner) => match *inner { Ty::Int(_) | Ty::Bool | Ty::Char | Ty::F32 | Ty::F64 => Ty::Cell(inner), _ => Ty::Cell(Box::new(Ty::Int(IntK::I32))) },
        other => other,
    }
}

fn map_ty(t: Ty, f: &dyn Fn(Ty) -> Ty) -> Ty {
    let bx = |t: Box<Ty>| Box::new(map_ty(*t, f));
    let t = match t {
        Ty::Tuple(ts) => Ty::Tuple(ts.into_iter().map(|t| map_ty(t, f)).collect()),
        Ty::Generic(a, b) => Ty::Generic(bx(a), bx(b)),
        Ty::Opt(t) => Ty::Opt(bx(t)), Ty::Array(t, n) => Ty::Array(bx(t), n), Ty::Slice(t) => Ty::Slice(bx(t)), Ty::Vec(t) => Ty::Vec(bx(t)),
        Ty::VecDeque(t) => Ty::VecDeque(bx(t)), Ty::HashMap(k, v) => Ty::HashMap(k, bx(v)), Ty::BTreeMap(k, v) => Ty::BTreeMap(k, bx(v)),
        Ty::Box(t) => Ty::Box(bx(t)), Ty::Rc(t) => Ty::Rc(bx(t)), Ty::Arc(t) => Ty::Arc(bx(t)), Ty::Cell(t) => Ty::Cell(bx(t)), Ty::RefCell(t) => Ty::RefCell(bx(t)),
        Ty::Ref(t) => Ty::Ref(bx(t)), Ty::RefMut(t) => Ty::RefMut(bx(t)), Ty::RawConst(t) => Ty::RawConst(bx(t)), Ty::RawMut(t) => Ty::RawMut(bx(t)),
        other => other,
    };
    f(t)
}

fn finish_program(mut gn: Gen, tys: Vec<Ty>) -> Program {
    // declared struct / enum field types may hold Cells too
    let tys: Vec<Ty> = tys.into_iter().map(|t| map_ty(t, &fix_cells)).collect();
    for i in 0..gn.d.structs.len() {
        for j in 0..gn.d.structs[i].fields.len() { let t = gn.d.structs[i].fields[j].1.clone(); gn.d.structs[i].fields[j].1 = map_ty(t, &fix_cells); }
    }
    for i in 0..gn.d.denums.len() {
        for j in 0..gn.d.denums[i].variants.len() {
            for k in 0..gn.d.denums[i].variants[j].fields.len() { let t = gn.d.denums[i].variants[j].fields[k].1.clone(); gn.d.denums[i].variants[j].fields[k].1 = map_ty(t, &fix_cells); }
        }
    }
    let mut vars = vec![];
    for (i, t) in tys.into_iter().enumerate() {
        let v = gn.val(&t);
        vars.push((format!("v{i}"), t, v));
    }
    g::program(gn.d, vars)
}

fn random_program(rng: &mut Rng) -> Program {
    let mut gn = Gen::new(rng);
    let n = 22;
    let tys: Vec<Ty> = (0..n).map(|i| gn.ty(if i % 5 == 0 { 3 } else if i % 2 == 0 { 2 } else { 1 })).collect();
    finish_program(gn, tys)
}

const COVERAGE_PROGRAMS: usize = 6;

// ------------------------------------------------------------------------------------------
// driver
// ------------------------------------------------------------------------------------------
fn hash_str(s: &str) -> u64 {
    let mut h: u64 = 0xcbf29ce484222325;
    for b in s.as_bytes() { h ^= *b as u64; h = h.wrapping_mul(0x100000001b3); }
    h
}

fn nested_kinds(t: &Ty, out: &mut BTreeMap<String, u64>) {
    *out.entry(format!("type:{}", t.kind())).or_default() += 1;
    match t {
        Ty::Tuple(ts) => ts.iter().for_each(|t| nested_kinds(t, out)),
        Ty::Generic(a, b) | Ty::HashMap(a, b) | Ty::BTreeMap(a, b) => { nested_kinds(a, out); nested_kinds(b, out) }
        Ty::Opt(t) | Ty::Array(t, _) | Ty::Slice(t) | Ty::Vec(t) | Ty::VecDeque(t) | Ty::HashSet(t) | Ty::BTreeSet(t) | Ty::Box(t) | Ty::Rc(t) | Ty::Arc(t)
        | Ty::Cell(t) | Ty::RefCell(t) | Ty::Ref(t) | Ty::RefMut(t) | Ty::RawConst(t) | Ty::RawMut(t) => nested_kinds(t, out),
        _ => {}
    }
}

fn shape_notes(t: &Ty, v: &Val, d: &Decls, out: &mut BTreeMap<String, u64>) {
    let mut bump = |k: String| *out.entry(k).or_default() += 1;
    match (t, v) {
        (Ty::VecDeque(_), Val::Deque { bulk, content, .. }) => bump(format!("vecdeque:{}", if bulk.is_some() { "capacity>10000" } else if content.is_empty() { "empty" } else { "scripted" })),
        (Ty::HashMap(..), Val::Map { content, del, bulk, .. }) => bump(format!("hashmap:n={}{}{}", content.len(), if !del.is_empty() || bulk.as_ref().map(|b| b.del_step > 0).unwrap_or(false) { "+removals" } else { "" }, match bulk { Some(b) if b.reserve > 0 => "+reserved-sparse", Some(b) if b.keep_mod > 0 => "+drained", _ => "" })),
        (Ty::HashSet(..), Val::Set { content, del, bulk, .. }) => bump(format!("hashset:n={}{}{}", content.len(), if !del.is_empty() || bulk.as_ref().map(|b| b.del_step > 0).unwrap_or(false) { "+removals" } else { "" }, match bulk { Some(b) if b.reserve > 0 => "+reserved-sparse", Some(b) if b.keep_mod > 0 => "+drained", _ => "" })),
        (Ty::BTreeMap(..), Val::Map { content, .. }) => bump(format!("btreemap:{}", match content.len() { 0 => "empty", 1..=11 => "1 leaf", 12..=71 => "<=2 levels", _ => ">=2-3 levels" })),
        (Ty::BTreeSet(..), Val::Set { content, .. }) => bump(format!("btreeset:{}", match content.len() { 0 => "empty", 1..=11 => "1 leaf", 12..=71 => "<=2 levels", _ => ">=2-3 levels" })),
        (Ty::CEnum(i), _) => bump(format!("c-enum:variants={}", match d.cenums[*i].variants.len() { 0..=128 => "<=128", 129..=200 => "129-200", _ => ">200" })),
        (Ty::DEnum(i), _) => bump(format!("data-enum:variants={}", match d.denums[*i].variants.len() { 0..=128 => "<=128", 129..=200 => "129-200", _ => ">200" })),
        _ => {}
    }
}

struct RunOut {
    checked: usize,
    value_failures: Vec<serde_json::Value>,
    selfcheck_failures: Vec<serde_json::Value>,
    errors: Vec<String>,
    hist: BTreeMap<String, u64>,
    distinct: HashSet<u64>,
    samples: Vec<serde_json::Value>,
    collected: Collected,
    programs: usize,
    timings: Vec<f64>,
}

fn run_program(idx: usize, p: &Program, scratch: &str, toolchain: Option<&str>, collect: bool, ro: &mut RunOut) {
    let t0 = std::time::Instant::now();
    let mut lap = std::time::Instant::now();
    let mut phase = |name: &str| { eprintln!("  program {idx}: {name} {:.2}s", lap.elapsed().as_secs_f64()); lap = std::time::Instant::now(); };
    let name = format!("c06_{}_{:016x}", idx, hash_str(&p.src));
    let bin_path = std::path::Path::new(scratch).join(&name);
    let bin = if bin_path.exists() { bin_path } else {
        match e2e::compile(scratch, &name, &p.src, &[], toolchain) {
            Ok(b) => b,
            Err(e) => { ro.errors.push(format!("program {idx}: rustc failed: {}", e.chars().take(600).collect::<String>())); return; }
        }
    };
    phase("compile");
    // the program's own view, from a plain run
    let own = std::process::Command::new(&bin).output().map(|o| String::from_utf8_lossy(&o.stdout).to_string()).unwrap_or_default();
    let own_lines: HashMap<&str, &str> = own.lines().filter_map(|l| l.split_once('=')).collect();
    for (n, t, v) in &p.vars {
        if let Some(want) = g::debug_fmt(&p.decls, t, v, true) {
            match own_lines.get(n.as_str()) {
                Some(l) if *l == want => {}
                other => ro.selfcheck_failures.push(serde_json::json!({"program": idx, "var": n, "type": t.name(&p.decls), "generator": want.chars().take(300).collect::<String>(), "program_prints": other.map(|s| s.chars().take(300).collect::<String>())})),
            }
        }
    }
    phase("own run + self check");
    let enums = match c06_dwarf::enum_infos(&bin) { Ok(e) => e, Err(e) => { ro.errors.push(format!("program {idx}: dwarf: {e}")); HashMap::new() } };
    phase("dwarf enum infos");
    let s = match e2e::launch(&bin, &[]) { Ok(s) => s, Err(e) => { ro.errors.push(format!("program {idx}: launch: {e}")); return; } };
    let mut s = s;
    let file = format!("{name}.rs");
    if let Err(e) = s.dbg.set_breakpoint_at_line(&file, p.stop_line) { ro.errors.push(format!("program {idx}: breakpoint at {file}:{}: {e}", p.stop_line)); return; }
    if let Err(e) = s.dbg.start_debugee() { ro.errors.push(format!("program {idx}: start: {e}")); return; }
    let stopped = s.events.take().iter().any(|e| matches!(e, e2e::Ev::Breakpoint { line: Some(l), .. } if *l == p.stop_line));
    if !stopped { ro.errors.push(format!("program {idx}: did not stop at line {}", p.stop_line)); return; }
    phase("launch + run to breakpoint");
    let pid = s.pid_now();
    let enums_by_norm: HashMap<String, &EnumInfo> = enums.iter().map(|(k, v)| (norm_ty(k), v)).collect();
    // every variable must be listed among the locals
    let local_names: HashSet<String> = match s.dbg.read_local_variables() {
        Ok(v) => v.iter().filter_map(|q| q.identity().name.clone()).collect(),
        Err(e) => { ro.errors.push(format!("program {idx}: read_local_variables: {e}")); HashSet::new() }
    };
    for (n, t, v) in &p.vars {
        let tyname = t.name(&p.decls);
        nested_kinds(t, &mut ro.hist);
        shape_notes(t, v, &p.decls, &mut ro.hist);
        let expected = exp_canon(&p.decls, t, v);
        ro.checked += 1;
        let key = hash_str(&format!("{tyname}|{}", show(&expected)));
        if !matches!(t, Ty::Int(_) | Ty::Bool | Ty::Unit) { ro.distinct.insert(key); }
        let mut fail = |shown: String, path: String, exp_s: String, cause: Option<&str>| {
            ro.value_failures.push(serde_json::json!({"program": idx, "source": format!("{scratch}/{file}"), "line": p.stop_line, "var": n, "type": tyname, "at": path, "expected": exp_s, "shown": shown, "cause": cause}));
        };
        if !local_names.contains(n) {
            fail("<<not listed by read_local_variables>>".into(), n.clone(), show(&expected), None);
            continue;
        }
        let res = match s.dbg.read_variable(Dqe::Variable(Selector::by_name(n, true))) {
            Ok(r) => r,
            Err(e) => { fail(format!("<<read_variable error: {e}>>"), n.clone(), show(&expected), None); continue; }
        };
        if res.len() != 1 {
            fail(format!("<<{} results>>", res.len()), n.clone(), show(&expected), None);
            continue;
        }
        let mut shown: Option<C> = None;
        let headers: Vec<(String, u64, u64)>;
        {
            let q = res.into_iter().next().unwrap();
            let mut w = Walker { pid, enums: &enums, decls: &p.decls, var: format!("p{idx}:{n}"), out: &mut ro.collected, int_budget: 24, collect, headers: vec![] };
            let _ = q.modify_value(|pcx, val| {
                shown = Some(w.walk(pcx, &val, Some((t, v))));
                Some(val)
            });
            headers = std::mem::take(&mut w.headers);
        }
        let shown = shown.unwrap_or(C::Bad("no value".into()));
        if let Some((path, e, sh, parent)) = first_diff(&expected, &shown, n, None) {
            // the differing node itself, or (for sequence elements) the sequence that holds it
            let cause = cause_of(e, sh, &enums_by_norm, &headers, &p.decls).or_else(|| match parent { Some((pe @ C::Seq { .. }, ps)) => cause_of(pe, ps, &enums_by_norm, &headers, &p.decls), _ => None });
            fail(show(sh), path, show(e), cause);
        }
        if ro.samples.len() < 3 && matches!(t, Ty::VecDeque(_) | Ty::HashMap(..) | Ty::DEnum(_) | Ty::BTreeMap(..)) && ro.samples.iter().all(|x| x["kind"] != t.kind()) {
            ro.samples.push(serde_json::json!({"kind": t.kind(), "type": tyname, "shown": show(&shown).chars().take(300).collect::<String>()}));
        }
    }
    phase("read + compare variables");
    drop(s);
    ro.programs += 1;
    ro.timings.push(t0.elapsed().as_secs_f64());
}

fn run_common(args: &[String], unit: bool) -> i32 {
    let seed: u64 = args.first().and_then(|s| s.parse().ok()).unwrap_or(1);
    let count: usize = args.get(1).and_then(|s| s.parse().ok()).unwrap_or(8);
    let out_dir = args.get(2).cloned().unwrap_or_else(|| "../coq/cases".into());
    let scratch = args.get(3).cloned().unwrap_or_else(|| "/verif/.scratch/c06".into());
    let toolchain = args.get(4).cloned().filter(|s| !s.is_empty() && s != "default");
    let leg = if unit { "c06-unit" } else { "c06-e2e" };
    let mut ro = RunOut { checked: 0, value_failures: vec![], selfcheck_failures: vec![], errors: vec![], hist: BTreeMap::new(), distinct: HashSet::new(), samples: vec![], collected: Collected::default(), programs: 0, timings: vec![] };
    for idx in 0..count {
        // one generator state per program, derived from the seed: the same programs in both legs
        let mut rng = Rng::new(seed ^ 0xC06 ^ ((idx as u64 + 1) << 20));
        let p = if idx < COVERAGE_PROGRAMS { coverage_program(idx, &mut rng) } else { random_program(&mut rng) };
        run_program(idx, &p, &scratch, toolchain.as_deref(), unit, &mut ro);
    }
    let total: f64 = ro.timings.iter().sum();
    if !unit {
        println!(
            "{}",
            serde_json::json!({"leg": leg, "seed": seed, "cases": ro.checked, "distinct_nontrivial": ro.distinct.len(), "histogram": ro.hist, "samples": ro.samples,
                "files": Vec::<String>::new(), "errors": ro.errors, "programs": ro.programs, "value_failures": ro.value_failures, "selfcheck_failures": ro.selfcheck_failures,
                "seconds_in_programs": total, "toolchain": toolchain})
        );
        return 0;
    }
    // unit leg: one cases file family per case type
    let mut files: Vec<String> = vec![];
    let mut meta: serde_json::Map<String, serde_json::Value> = serde_json::Map::new();
    let mut hist = ro.collected.notes.clone();
    let mut seen = HashSet::new();
    let mut nontrivial = 0usize;
    let mut total_cases = 0usize;
    let shard = 60usize;
    let fams: Vec<(&str, &str, &str, &Vec<(String, serde_json::Value)>)> = vec![
        ("int", "int_case", "int_check", &ro.collected.ints), ("enum", "enum_case", "enum_check", &ro.collected.enums), ("vec", "vec_case", "vec_check", &ro.collected.vecs),
        ("vd", "vd_case", "vd_check", &ro.collected.vds), ("hb", "hb_case", "hb_check", &ro.collected.hbs), ("bt", "bt_case", "bt_check", &ro.collected.bts),
    ];
    for (stem, ty, chk, cases) in fams {
        let mut cf_ = CasesFile::new(&["Model.Decode"], ty, chk);
        let mut ms = vec![];
        for (c, m) in cases.iter() {
            // identical cases (same bytes, same answer) are evaluated once
            if !seen.insert(hash_str(c)) { continue; }
            let trivial = match stem {
                "vec" | "vd" => m["len"] == 0,
                "hb" => m["items"] == 0,
                "int" => c.ends_with(" 0%Z)"),
                _ => false,
            };
            if !trivial { nontrivial += 1; }
            cf_.push(c.clone());
            ms.push(m.clone());
        }
        *hist.entry(format!("cases:{stem}")).or_default() += cf_.cases.len() as u64;
        total_cases += cf_.cases.len();
        // big cases (tens of thousands of bytes) go into small shards
        let per = if stem == "int" || stem == "enum" { 400 } else { shard };
        files.extend(cf_.write(&out_dir, &format!("cases_C06_{stem}"), per));
        meta.insert(stem.to_string(), serde_json::json!({"shard": per, "meta": ms}));
    }
    for (k, v) in ro.hist.iter() { hist.insert(k.clone(), *v); }
    let samples: Vec<serde_json::Value> = [&ro.collected.vds, &ro.collected.hbs, &ro.collected.enums].iter().filter_map(|v| v.first().map(|(c, m)| serde_json::json!({"meta": m, "case": c.chars().take(400).collect::<String>()}))).collect();
    println!(
        "{}",
        serde_json::json!({"leg": leg, "seed": seed, "cases": total_cases, "distinct_nontrivial": nontrivial, "histogram": hist, "samples": samples, "files": files,
            "errors": ro.errors, "programs": ro.programs, "case_meta": meta, "seconds_in_programs": total, "toolchain": toolchain})
    );
    0
}

pub fn run_e2e(args: &[String]) -> i32 { run_common(args, false) }
pub fn run_unit(args: &[String]) -> i32 { run_common(args, true) }

/// `bsv c06-src <seed> <idx>`: print the source of one generated program (replay aid)
pub fn run_src(args: &[String]) -> i32 {
    let seed: u64 = args.first().and_then(|s| s.parse().ok()).unwrap_or(1);
    let idx: usize = args.get(1).and_then(|s| s.parse().ok()).unwrap_or(0);
    let mut rng = Rng::new(seed ^ 0xC06 ^ ((idx as u64 + 1) << 20));
    let p = if idx < COVERAGE_PROGRAMS { coverage_program(idx, &mut rng) } else { random_program(&mut rng) };
    println!("{}", p.src);
    eprintln!("stop line {}", p.stop_line);
    0
}
