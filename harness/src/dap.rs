//! In-memory DAP client: a real `DebugSession` runs on its own thread over a channel transport;
//! the harness sends requests and records the complete adapter transcript.
use bugstalker::dap::transport::DapTransport;
use bugstalker::dap::yadap::session::DebugSession;
use serde_json::{Value, json};
use std::sync::mpsc::{Receiver, RecvTimeoutError, Sender, channel};
use std::sync::{Arc, Mutex};
use std::time::{Duration, Instant};

pub struct ChanTransport {
    rx: Receiver<Value>,
    log: Arc<Mutex<Vec<Value>>>,
}

impl DapTransport for ChanTransport {
    fn read_message(&mut self) -> anyhow::Result<Value> {
        self.rx.recv().map_err(|_| anyhow::anyhow!("DAP connection closed"))
    }
    fn write_message(&mut self, message: &Value) -> anyhow::Result<()> {
        self.log.lock().unwrap().push(message.clone());
        Ok(())
    }
}

pub struct Client {
    tx: Option<Sender<Value>>,
    pub log: Arc<Mutex<Vec<Value>>>,
    pub next_seq: i64,
    pub sent: Vec<(i64, String)>,
    handle: Option<std::thread::JoinHandle<bool>>,
}

impl Client {
    pub fn start() -> Client {
        let (tx, rx) = channel::<Value>();
        let log = Arc::new(Mutex::new(vec![]));
        let transport: Arc<Mutex<dyn DapTransport>> = Arc::new(Mutex::new(ChanTransport { rx, log: log.clone() }));
        let handle = std::thread::spawn(move || {
            let session = DebugSession::new(transport);
            std::panic::catch_unwind(std::panic::AssertUnwindSafe(|| session.run(vec![]))).is_ok()
        });
        Client { tx: Some(tx), log, next_seq: 1, sent: vec![], handle: Some(handle) }
    }

    /// send a request; returns its seq
    pub fn send(&mut self, command: &str, arguments: Value) -> i64 {
        let seq = self.next_seq;
        self.next_seq += 1;
        self.sent.push((seq, command.to_string()));
        if let Some(tx) = &self.tx {
            let _ = tx.send(json!({"seq": seq, "type": "request", "command": command, "arguments": arguments}));
        }
        seq
    }
    pub fn send_raw(&mut self, v: Value) {
        if let Some(tx) = &self.tx {
            let _ = tx.send(v);
        }
    }

    /// wait until a response with this request_seq is in the log
    pub fn wait_response(&self, seq: i64, ms: u64) -> Option<Value> {
        let t0 = Instant::now();
        loop {
            if let Some(v) = self.log.lock().unwrap().iter().find(|m| m["type"] == "response" && m["request_seq"] == seq) {
                return Some(v.clone());
            }
            if t0.elapsed() > Duration::from_millis(ms) {
                return None;
            }
            std::thread::sleep(Duration::from_millis(2));
        }
    }
    pub fn wait_event(&self, event: &str, from: usize, ms: u64) -> Option<usize> {
        let t0 = Instant::now();
        loop {
            if let Some(i) = self.log.lock().unwrap().iter().enumerate().skip(from).find(|(_, m)| m["type"] == "event" && m["event"] == event).map(|(i, _)| i) {
                return Some(i);
            }
            if t0.elapsed() > Duration::from_millis(ms) {
                return None;
            }
            std::thread::sleep(Duration::from_millis(2));
        }
    }
    pub fn log_len(&self) -> usize {
        self.log.lock().unwrap().len()
    }
    /// close the connection and wait for the session thread; returns (thread finished, no panic)
    pub fn close(&mut self, ms: u64) -> (bool, bool) {
        self.tx = None;
        let t0 = Instant::now();
        // Two debuggers must never be alive in one process (each reaps children with waitpid(-1)): on a loaded machine
        // the session thread may need much longer than `ms` to kill and reap its debuggee, so wait for it generously;
        // only a thread that is still running after two minutes is reported as not finished.
        let ms = ms.max(120_000);
        if let Some(h) = self.handle.take() {
            while !h.is_finished() && t0.elapsed() < Duration::from_millis(ms) {
                std::thread::sleep(Duration::from_millis(5));
            }
            if h.is_finished() {
                let ok = h.join().unwrap_or(false);
                return (true, ok);
            }
            return (false, true);
        }
        (true, true)
    }
    pub fn transcript(&self) -> Vec<Value> {
        self.log.lock().unwrap().clone()
    }
}

pub fn cmd_code(c: &str) -> u64 {
    const CMDS: &[&str] = &[
        "?", "initialize", "launch", "attach", "configurationDone", "setBreakpoints", "setFunctionBreakpoints", "setInstructionBreakpoints",
        "setDataBreakpoints", "setExceptionBreakpoints", "dataBreakpointInfo", "breakpointLocations", "source", "threads", "stackTrace", "scopes",
        "variables", "setVariable", "continue", "restart", "restartFrame", "next", "stepIn", "stepInTargets", "stepOut", "stepBack",
        "reverseContinue", "pause", "gotoTargets", "goto", "evaluate", "setExpression", "completions", "loadedSources", "modules", "readMemory",
        "writeMemory", "disassemble", "terminate", "terminateThreads", "cancel", "runInTerminal", "disconnect", "bogusCommand",
    ];
    CMDS.iter().position(|x| *x == c).unwrap_or(0) as u64
}

pub fn event_code(e: &str) -> u64 {
    match e {
        "output" => 1, "stopped" => 2, "continued" => 3, "thread" => 0, "exited" => 6, "terminated" => 7, "initialized" => 8,
        "process" => 9, "module" => 10, "loadedSource" => 11, "breakpoint" => 12, "progressStart" => 13, "progressUpdate" => 14,
        "progressEnd" => 15, "invalidated" => 16, "capabilities" => 17, _ => 99,
    }
}

/// a transcript message as the Coq term `Msg seq (Response rseq cmd ok)` / `Msg seq (Event ev arg)`
pub fn msg_term(m: &Value) -> String {
    let seq = m["seq"].as_i64().unwrap_or(0).max(0);
    if m["type"] == "response" {
        let rs = m["request_seq"].as_i64().unwrap_or(-1);
        let cmd = cmd_code(m["command"].as_str().unwrap_or("?"));
        let ok = m["success"].as_bool().unwrap_or(false);
        format!("Msg {}%N (Response ({})%Z {}%N {})", seq, rs, cmd, ok)
    } else {
        let e = m["event"].as_str().unwrap_or("?");
        let (code, arg) = if e == "thread" {
            let started = m["body"]["reason"] == "started";
            (if started { 4 } else { 5 }, m["body"]["threadId"].as_i64().unwrap_or(0))
        } else if e == "exited" {
            (6, m["body"]["exitCode"].as_i64().unwrap_or(0))
        } else if e == "module" || e == "loadedSource" {
            (event_code(e), if m["body"]["reason"] == "removed" { 1 } else { 0 })
        } else {
            (event_code(e), 0)
        };
        format!("Msg {}%N (Event {}%N ({})%Z)", seq, code, arg)
    }
}
