//! Printing of values as Gallina terms for cases_*.v files.
use std::fmt::Write;

pub fn n(v: u128) -> String {
    format!("{}%N", v)
}
pub fn z(v: i128) -> String {
    if v < 0 { format!("({})%Z", v) } else { format!("{}%Z", v) }
}
pub fn nat(v: usize) -> String {
    format!("{}%nat", v)
}
pub fn boolean(b: bool) -> String {
    if b { "true".into() } else { "false".into() }
}
pub fn list<T>(xs: &[T], f: impl Fn(&T) -> String) -> String {
    let mut s = String::from("[");
    for (i, x) in xs.iter().enumerate() {
        if i > 0 {
            s.push_str("; ");
        }
        s.push_str(&f(x));
    }
    s.push(']');
    s
}
pub fn bstr(s: &str) -> String {
    list(s.as_bytes(), |b| n(*b as u128))
}
pub fn bytes(s: &[u8]) -> String {
    list(s, |b| n(*b as u128))
}
pub fn option<T>(x: &Option<T>, f: impl Fn(&T) -> String) -> String {
    match x {
        Some(v) => format!("(Some {})", f(v)),
        None => "None".into(),
    }
}

/// A cases file: `Definition cs : list <ty> := [...]` + evaluation of `mismatches <chk> 0 cs`.
pub struct CasesFile {
    pub prelude: String,
    pub requires: Vec<String>,
    pub ty: String,
    pub chk: String,
    pub cases: Vec<String>,
}

impl CasesFile {
    pub fn new(requires: &[&str], ty: &str, chk: &str) -> Self {
        CasesFile {
            prelude: String::new(),
            requires: requires.iter().map(|s| s.to_string()).collect(),
            ty: ty.into(),
            chk: chk.into(),
            cases: vec![],
        }
    }
    pub fn push(&mut self, c: String) {
        self.cases.push(c);
    }
    /// write shards `<dir>/<stem>_<k>.v` of at most `per` cases each; returns the file names
    pub fn write(&self, dir: &str, stem: &str, per: usize) -> Vec<String> {
        let mut out = vec![];
        std::fs::create_dir_all(dir).unwrap();
        let chunks: Vec<&[String]> = if self.cases.is_empty() {
            vec![&[]]
        } else {
            self.cases.chunks(per).collect()
        };
        for (k, chunk) in chunks.iter().enumerate() {
            let mut s = String::new();
            writeln!(s, "From BS Require Import Model.Base.").unwrap();
            for r in &self.requires {
                writeln!(s, "From BS Require Import {}.", r).unwrap();
            }
            writeln!(s, "Open Scope N_scope.").unwrap();
            if !self.prelude.is_empty() {
                writeln!(s, "{}", self.prelude).unwrap();
            }
            writeln!(s, "Definition cs : list ({}) := [", self.ty).unwrap();
            for (i, c) in chunk.iter().enumerate() {
                writeln!(s, "  {}{}", c, if i + 1 < chunk.len() { ";" } else { "" }).unwrap();
            }
            writeln!(s, "].").unwrap();
            writeln!(s, "Definition bad := Eval vm_compute in (mismatches ({}) 0%N cs).", self.chk).unwrap();
            writeln!(s, "Print bad.").unwrap();
            let name = format!("{}/{}_{}.v", dir, stem, k);
            std::fs::write(&name, s).unwrap();
            out.push(name);
        }
        out
    }
}
