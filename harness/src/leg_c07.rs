//! C07 / C08 legs over the real parsers:
//!   c07-parse   : `expression::parser()` on generated expressions (canonical text with seeded blanks) and on a
//!                 malformed token stream, against `parse` / `print` of Model/Dqe.v (`dqe_parse_check`)
//!   c08-console : `Command::parse` on grammar-derived, boundary and mutated command lines, in a worker thread
//!                 with a wall-clock watchdog; outcome class Ok / Err / Panic / Timeout; numeric arguments as
//!                 `num_case`s, expression-carrying commands as `dqe_parse_case`s
use crate::coqfmt::{self as cf, CasesFile};
use crate::dqe_ast::*;
use crate::rng::Rng;
use bugstalker::debugger::variable::dqe::Dqe as RDqe;
use bugstalker::ui::command::parser::expression;
use bugstalker::ui::command::watch::WatchpointIdentity;
use bugstalker::ui::command::{self, Command};
use chumsky::Parser;
use std::collections::{BTreeMap, HashSet};
use std::sync::mpsc::{Receiver, Sender, channel};
use std::sync::{Mutex, OnceLock};
use std::time::Duration;

// ---------------------------------------------------------------- panic capture and watchdog worker

static LAST_PANIC: OnceLock<Mutex<String>> = OnceLock::new();

fn install_panic_hook() {
    LAST_PANIC.get_or_init(|| Mutex::new(String::new()));
    std::panic::set_hook(Box::new(|info| {
        let loc = info.location().map(|l| format!("{}:{}", l.file(), l.line())).unwrap_or_default();
        let msg = if let Some(s) = info.payload().downcast_ref::<&str>() {
            s.to_string()
        } else if let Some(s) = info.payload().downcast_ref::<String>() {
            s.clone()
        } else {
            String::new()
        };
        // chumsky's `unwrapped()` reports the call site of `.unwrapped()` in its message
        let site = match msg.find("src/ui/") {
            Some(i) => {
                let tail = &msg[i..];
                let end = tail.find(|c: char| c == ')' || c == ' ' || c == '\'').unwrap_or(tail.len());
                let mut t = tail[..end].to_string();
                // keep file:line, drop the column
                let parts: Vec<&str> = t.split(':').collect();
                if parts.len() >= 3 {
                    t = format!("{}:{}", parts[0], parts[1]);
                }
                t
            }
            None => loc.clone(),
        };
        let site = match site.find("src/") {
            Some(i) => site[i..].to_string(),
            None => site,
        };
        *LAST_PANIC.get().unwrap().lock().unwrap() = format!("{}|{}", site, msg.chars().take(160).collect::<String>());
    }));
}

fn take_panic() -> (String, String) {
    let s = std::mem::take(&mut *LAST_PANIC.get().unwrap().lock().unwrap());
    match s.split_once('|') {
        Some((a, b)) => (a.to_string(), b.to_string()),
        None => (s, String::new()),
    }
}

#[derive(Clone, Debug)]
pub enum Outcome<T> {
    Done(T),
    Panic { site: String, msg: String },
    Timeout,
}

/// A worker thread (8 MiB stack like the console's main thread) that applies `f` to each job under
/// `catch_unwind`; the caller waits at most `limit` for an answer, then abandons the thread.
pub struct Worker<I: Send + 'static, O: Send + 'static> {
    tx: Sender<I>,
    rx: Receiver<Outcome<O>>,
    f: fn(I) -> O,
    pub limit: Duration,
}

impl<I: Send + 'static, O: Send + 'static> Worker<I, O> {
    fn spawn(f: fn(I) -> O) -> (Sender<I>, Receiver<Outcome<O>>) {
        let (tx, jobs) = channel::<I>();
        let (res, rx) = channel::<Outcome<O>>();
        std::thread::Builder::new()
            .stack_size(8 << 20)
            .spawn(move || {
                for job in jobs {
                    let r = std::panic::catch_unwind(std::panic::AssertUnwindSafe(|| f(job)));
                    let out = match r {
                        Ok(v) => Outcome::Done(v),
                        Err(_) => {
                            let (site, msg) = take_panic();
                            Outcome::Panic { site, msg }
                        }
                    };
                    if res.send(out).is_err() {
                        return;
                    }
                }
            })
            .unwrap();
        (tx, rx)
    }
    pub fn new(f: fn(I) -> O, limit: Duration) -> Self {
        let (tx, rx) = Self::spawn(f);
        Worker { tx, rx, f, limit }
    }
    pub fn call(&mut self, job: I) -> Outcome<O> {
        self.tx.send(job).unwrap();
        match self.rx.recv_timeout(self.limit) {
            Ok(o) => o,
            Err(_) => {
                // the old thread is left behind (it cannot be killed); a new one takes over
                let (tx, rx) = Self::spawn(self.f);
                self.tx = tx;
                self.rx = rx;
                Outcome::Timeout
            }
        }
    }
}

fn bump(h: &mut BTreeMap<String, u64>, k: impl Into<String>) {
    *h.entry(k.into()).or_default() += 1;
}

// ---------------------------------------------------------------- c07-parse

/// (text, tokens) -> result of the real expression parser, encoded; plus the Display re-parse probe
struct ParseJob {
    text: String,
    toks: Vec<Tok>,
}
struct ParseAns {
    result: Option<Dq>, // None = rejected
    notes: Vec<String>,
    display: Vec<(String, &'static str)>, // (Display text of a literal, "same" | "rejected" | "different")
}

fn parse_job(j: ParseJob) -> ParseAns {
    let r = expression::parser().parse(j.text.as_str()).into_result();
    match r {
        Ok(e) => {
            let mut enc = Encoder::new(&j.toks);
            let d = enc.dqe(&e);
            let mut lits = vec![];
            literals_of(&e, &mut lits);
            let mut display = vec![];
            for l in lits {
                let shown = l.to_string();
                // the probe must not be mistaken for the parse under test: its own panics are caught here
                let back = std::panic::catch_unwind(|| {
                    expression::literal().then_ignore(chumsky::prelude::end()).parse(shown.as_str()).into_result().ok()
                });
                let _ = take_panic();
                let cls = match back {
                    Ok(Some(l2)) if &l2 == l => "same",
                    Ok(Some(_)) => "different",
                    Ok(None) => "rejected",
                    Err(_) => "panic",
                };
                display.push((shown, cls));
            }
            ParseAns { result: Some(d), notes: enc.notes, display }
        }
        Err(_) => ParseAns { result: None, notes: vec![], display: vec![] },
    }
}

pub const PARSE_PRELUDE: &str = "(* harness self-check: when an expression was intended, the token list must be its canonical text *)
Definition c07_chk (c : dqe_parse_case) : N :=
  match pc_intended c with
  | Some e0 => if tokens_eqb (print e0) (pc_tokens c) then dqe_parse_check c else 1
  | None => dqe_parse_check c
  end.";

fn po_text(o: &Outcome<ParseAns>) -> String {
    match o {
        Outcome::Done(ParseAns { result: Some(d), .. }) => format!("(PO_ok {})", coq_dq(d)),
        Outcome::Done(_) => "PO_reject".into(),
        // a parse that does not come back is reported as a crash of the parser
        Outcome::Panic { .. } | Outcome::Timeout => "PO_panic".into(),
    }
}

fn outcome_name<T>(o: &Outcome<T>, ok: impl Fn(&T) -> &'static str) -> &'static str {
    match o {
        Outcome::Done(v) => ok(v),
        Outcome::Panic { .. } => "panic",
        Outcome::Timeout => "timeout",
    }
}

fn pick_special(rng: &mut Rng) -> Option<Special> {
    match rng.below(100) {
        0..=2 => Some(Special::BoolPrefixEnum),
        3..=5 => Some(Special::FloatLeadingZero),
        6 => Some(Special::EmptyAssoc),
        7..=8 => Some(Special::IntMin),
        _ => None,
    }
}

/// one structured expression of 0..5 operators (depth 1..6)
fn gen_structured(rng: &mut Rng) -> (Dq, Option<Special>) {
    let want = pick_special(rng);
    let ops = match rng.below(20) {
        0 => 0,
        1..=4 => 1,
        5..=9 => 2,
        10..=13 => 3,
        14..=17 => 4,
        _ => 5,
    };
    let mut g = Gen { rng, want_special: want, used_special: None };
    let e = g.expr(ops);
    let used = g.used_special;
    (e, used)
}

pub fn run_parse(args: &[String]) -> i32 {
    let seed: u64 = args.first().and_then(|s| s.parse().ok()).unwrap_or(1);
    let count: usize = args.get(1).and_then(|s| s.parse().ok()).unwrap_or(2000);
    let out_dir = args.get(2).cloned().unwrap_or_else(|| "../coq/cases".into());
    install_panic_hook();
    let mut rng = Rng::new(seed);
    let mut worker: Worker<ParseJob, ParseAns> = Worker::new(parse_job, Duration::from_secs(10));
    let mut cases = CasesFile::new(&["Model.Dqe"], "dqe_parse_case", "c07_chk");
    cases.prelude = PARSE_PRELUDE.into();
    let mut seen = HashSet::new();
    let mut nontrivial = 0usize;
    let mut hist: BTreeMap<String, u64> = BTreeMap::new();
    let mut samples = vec![];
    let mut metas = vec![];
    let mut errors: Vec<String> = vec![];
    let mut display_hist: BTreeMap<String, u64> = BTreeMap::new();
    let mut display_examples: Vec<serde_json::Value> = vec![];

    for _ in 0..count {
        let structured = rng.below(100) < 65;
        let (e, special) = gen_structured(&mut rng);
        let mut toks = tokens_of(&e);
        let mut muts: Vec<&'static str> = vec![];
        if !structured {
            loop {
                let mut t2 = toks.clone();
                muts = mutate(&mut t2, &mut rng);
                if !ambiguous(&t2) && !t2.is_empty() {
                    toks = t2;
                    break;
                }
            }
        }
        let fancy = rng.chance(3, 4);
        let text = if fancy { render_fancy(&toks, &mut rng) } else { render_canonical(&toks) };
        let ans = worker.call(ParseJob { text: text.clone(), toks: toks.clone() });
        let intended = if structured { format!("(Some {})", coq_dq(&e)) } else { "None".into() };
        let c = format!("(mk_parse_case {} {} {})", coq_toks(&toks), intended, po_text(&ans));
        let oname = outcome_name(&ans, |a| if a.result.is_some() { "ok" } else { "reject" });
        let (site, msg) = match &ans {
            Outcome::Panic { site, msg } => (site.clone(), msg.clone()),
            _ => (String::new(), String::new()),
        };
        if let Outcome::Done(a) = &ans {
            for n in &a.notes {
                if errors.len() < 10 {
                    errors.push(format!("{text:?}: {n}"));
                }
            }
            for (shown, cls) in &a.display {
                bump(&mut display_hist, *cls);
                if *cls != "same" && display_examples.len() < 6 {
                    display_examples.push(serde_json::json!({"expression": text, "display": shown, "reparse": cls}));
                }
            }
        }
        let nt = toks.len() >= 4;
        if seen.insert(c.clone()) && nt {
            nontrivial += 1;
        }
        bump(&mut hist, format!("stream:{}", if structured { "structured" } else { "malformed" }));
        bump(&mut hist, format!("outcome:{}:{}", if structured { "structured" } else { "malformed" }, oname));
        bump(&mut hist, format!("render:{}", if fancy { "seeded-blanks" } else { "canonical" }));
        if structured {
            bump(&mut hist, format!("depth:{}", depth(&e)));
            bump(&mut hist, format!("top:{}", top_kind(&e)));
            let mut lk = vec![];
            lit_kinds(&e, &mut lk);
            for k in lk {
                bump(&mut hist, format!("literal:{k}"));
            }
            if let Some(s) = special {
                bump(&mut hist, format!("special:{}", s.name()));
            }
        } else {
            for m in &muts {
                bump(&mut hist, format!("mutation:{m}"));
            }
        }
        if samples.len() < 3 && structured && depth(&e) >= 4 && oname == "ok" {
            samples.push(serde_json::json!({"text": text, "tokens": toks.len(), "outcome": oname, "ast": format!("{:?}", e)}));
        }
        metas.push(serde_json::json!({
            "text": text, "stream": if structured { "structured" } else { "malformed" },
            "special": special.map(|s| s.name()), "outcome": oname, "site": site, "msg": msg, "mutations": muts,
        }));
        cases.push(c);
    }
    let shard = 400;
    let files = cases.write(&out_dir, "cases_C07_parse", shard);
    println!(
        "{}",
        serde_json::json!({"leg": "c07-parse", "seed": seed, "cases": count, "distinct_nontrivial": nontrivial,
            "histogram": hist, "samples": samples, "files": files, "errors": errors, "case_meta": metas, "shard": shard,
            "overflow_checks": overflow_checks(),
            "display_reparse": display_hist, "display_examples": display_examples})
    );
    0
}

/// does this build trap on arithmetic overflow (the profile is shared with the debugger crate)?
fn overflow_checks() -> bool {
    let prev = std::panic::take_hook();
    std::panic::set_hook(Box::new(|_| {}));
    let r = std::panic::catch_unwind(|| {
        let x: i64 = std::hint::black_box(i64::MIN);
        std::hint::black_box(-x)
    })
    .is_err();
    std::panic::set_hook(prev);
    r
}

// ---------------------------------------------------------------- c08-console

#[derive(Clone, Copy, Debug, PartialEq)]
enum NumKind {
    Hex,
    BreakLine,
    BreakRemove,
    Source,
    WatchRemove,
    ThreadSwitch,
    FrameSwitch,
    TriggerB,
    TriggerW,
    DqeInt,
    DqeSlice,
}
impl NumKind {
    fn coq(&self) -> &'static str {
        match self {
            NumKind::Hex => "NA_hex",
            NumKind::BreakLine => "NA_break_line",
            NumKind::BreakRemove => "NA_break_remove",
            NumKind::Source => "NA_source",
            NumKind::WatchRemove => "NA_watch_remove",
            NumKind::ThreadSwitch => "NA_thread_switch",
            NumKind::FrameSwitch => "NA_frame_switch",
            NumKind::TriggerB => "NA_trigger_b",
            NumKind::TriggerW => "NA_trigger_w",
            NumKind::DqeInt => "NA_dqe_int",
            NumKind::DqeSlice => "NA_dqe_slice",
        }
    }
    fn bound(&self) -> u128 {
        match self {
            NumKind::Hex | NumKind::BreakLine | NumKind::Source | NumKind::DqeInt | NumKind::DqeSlice => P64,
            _ => P32,
        }
    }
}

/// what the real command parser returned
#[derive(Clone, Debug)]
struct LineAns {
    ok: bool,
    kind: String,        // variant name of the Command
    dqe: Option<Dq>,     // the expression of a var / arg / watch command
    notes: Vec<String>,
}

struct LineJob {
    line: String,
    toks: Vec<Tok>,
}

fn cmd_kind(c: &Command) -> String {
    let s = format!("{:?}", c);
    let end = s.find(|ch: char| !(ch.is_alphanumeric() || ch == '_')).unwrap_or(s.len());
    s[..end].to_string()
}

fn line_job(j: LineJob) -> LineAns {
    match Command::parse(&j.line) {
        Ok(c) => {
            let d: Option<&RDqe> = match &c {
                Command::Print(command::print::Command::Variable { dqe, .. }) => Some(dqe),
                Command::Print(command::print::Command::Argument { dqe, .. }) => Some(dqe),
                Command::Watchpoint(command::watch::Command::Add(WatchpointIdentity::DQE(_, dqe), _)) => Some(dqe),
                Command::Watchpoint(command::watch::Command::Remove(WatchpointIdentity::DQE(_, dqe))) => Some(dqe),
                _ => None,
            };
            let mut enc = Encoder::new(&j.toks);
            let dq = d.map(|d| enc.dqe(d));
            LineAns { ok: true, kind: cmd_kind(&c), dqe: dq, notes: enc.notes }
        }
        Err(_) => LineAns { ok: false, kind: String::new(), dqe: None, notes: vec![] },
    }
}

pub const CONSOLE_PRELUDE: &str = "(* one case per console line: a numeric argument, an expression-carrying command, or only the outcome class
   (0 = Ok, 1 = Err, 2 = Panic, 3 = Timeout); a panic or a time-out violates C08 *)
Inductive con_case := CNum (c : num_case) | CDqe (c : dqe_parse_case) | CLine (outcome : N).
Definition con_check (c : con_case) : N :=
  match c with
  | CNum c => num_check c
  | CDqe c => match pc_intended c with
              | Some e0 => if tokens_eqb (print e0) (pc_tokens c) then dqe_parse_check c else 1
              | None => dqe_parse_check c
              end
  | CLine o => if o <? 2 then 0 else 2
  end.";

fn num_value(rng: &mut Rng, bound: u128) -> u128 {
    match rng.below(100) {
        0..=34 => rng.below(200) as u128,
        35..=44 => bound - 1,
        45..=59 => bound,
        60..=64 => bound + 1,
        65..=69 => P63,
        70..=74 => P64 - 1,
        75..=79 => P64,
        80..=84 => rng.next() as u128,
        85..=89 => (rng.next() as u128) << 32 | rng.next() as u128,
        90..=94 => 99999999999999999999999,
        _ => u128::MAX,
    }
}

fn hex_text(rng: &mut Rng, v: u128) -> String {
    let pre = if rng.chance(1, 5) { "0X" } else { "0x" };
    let z = if rng.chance(1, 5) { "000" } else { "" };
    if rng.chance(1, 3) { format!("{pre}{z}{:X}", v) } else { format!("{pre}{z}{:x}", v) }
}

fn ws(rng: &mut Rng) -> &'static str {
    match rng.below(10) {
        0 => "  ",
        1 => "\t",
        _ => " ",
    }
}

const VARS: &[&str] = &["x", "arr", "m", "v", "s1", "ptr", "ns::G", "a_b"];
const FILES: &[&str] = &["main.rs", "src/lib.rs", "a.rs", "/abs/path/x.rs", "t", "mod name.rs"];
const FUNCS: &[&str] = &["main", "ns::f", "some_func", "f1", "<T as U>::g", "{closure#0}"];
const REGS: &[&str] = &["rip", "rax", "rsp", "eflags", "r15", "xyz"];

struct Line {
    text: String,
    family: &'static str,
    num: Option<(NumKind, u128)>,
    dqe: Option<(Vec<Tok>, Option<Dq>)>, // tokens of the expression part, intended expression
    expect_ok: Option<bool>,             // Some(true): a valid line of the grammar that must be accepted
    special: Option<Special>,
}

fn plain(text: String, family: &'static str, ok: Option<bool>) -> Line {
    Line { text, family, num: None, dqe: None, expect_ok: ok, special: None }
}

fn gen_line(rng: &mut Rng) -> Line {
    let w = ws(rng);
    let lead = if rng.chance(1, 6) { " " } else { "" };
    let trail = if rng.chance(1, 6) { " " } else { "" };
    let r = rng.below(100);
    match r {
        // ---- commands without arguments / with words
        0..=13 => {
            const SIMPLE: &[&str] = &[
                "continue", "c", "run", "r", "stepi", "step", "stepinto", "next", "stepover", "finish", "stepout", "bt",
                "backtrace", "bt all", "backtrace all", "help", "h", "help break", "sharedlib info", "thread info",
                "thread current", "frame info", "f info", "reg info", "register info", "watch info", "w info", "break info",
                "b info", "trigger", "trigger any", "trigger info", "source asm", "source fn", "async bt", "async backtrace all",
                "async task", "async task abc.*", "async next", "async stepover", "async finish", "async stepout", "oracle tokio",
                "oracle tokio all", "symbol main", "symbol .*", "var locals", "vard locals", "arg all", "argd all",
                "reg read rip", "register read rax",
            ];
            let s = *rng.pick(SIMPLE);
            plain(format!("{lead}{}{trail}", s.replace(' ', w)), "simple", Some(true))
        }
        // ---- numeric arguments
        14..=19 => {
            let k = NumKind::Hex;
            let v = num_value(rng, k.bound());
            let h = hex_text(rng, v);
            let cmd = *rng.pick(&["break", "b", "break remove", "b r", "break r"]);
            Line { text: format!("{lead}{}{w}{h}{trail}", cmd.replace(' ', w)), family: "break-addr", num: Some((k, v)), dqe: None, expect_ok: Some(v < P64), special: None }
        }
        20..=25 => {
            let k = NumKind::BreakLine;
            let v = num_value(rng, k.bound());
            let cmd = *rng.pick(&["break", "b", "break remove", "b r"]);
            let f = *rng.pick(FILES);
            Line { text: format!("{lead}{}{w}{f}:{v}{trail}", cmd.replace(' ', w)), family: "break-line", num: Some((k, v)), dqe: None, expect_ok: Some(v < P64), special: None }
        }
        26..=30 => {
            let k = NumKind::BreakRemove;
            let v = num_value(rng, k.bound());
            let cmd = *rng.pick(&["break remove", "b r", "b remove"]);
            Line { text: format!("{lead}{}{w}{v}{trail}", cmd.replace(' ', w)), family: "break-remove-number", num: Some((k, v)), dqe: None, expect_ok: Some(v < P32), special: None }
        }
        31..=33 => {
            let f = *rng.pick(FUNCS);
            let cmd = *rng.pick(&["break", "b", "break remove", "b r"]);
            plain(format!("{lead}{}{w}{f}{trail}", cmd.replace(' ', w)), "break-fn", Some(true))
        }
        34..=37 => {
            let k = NumKind::Source;
            let v = num_value(rng, k.bound());
            Line { text: format!("{lead}source{w}{v}{trail}"), family: "source", num: Some((k, v)), dqe: None, expect_ok: Some(v < P64), special: None }
        }
        38..=41 => {
            let k = NumKind::WatchRemove;
            let v = num_value(rng, k.bound());
            let cmd = *rng.pick(&["watch remove", "w r", "watch r"]);
            Line { text: format!("{lead}{}{w}{v}{trail}", cmd.replace(' ', w)), family: "watch-remove-number", num: Some((k, v)), dqe: None, expect_ok: Some(v < P32), special: None }
        }
        42..=46 => {
            let k = NumKind::Hex;
            let v = num_value(rng, k.bound());
            let h = hex_text(rng, v);
            let cmd = *rng.pick(&["watch", "w", "watch +rw", "watch +w", "watch remove", "w r"]);
            let size = *rng.pick(&["1", "2", "4", "8"]);
            let family = if cmd.ends_with('r') || cmd.ends_with("remove") { "watch-addr-remove" } else { "watch-addr" };
            Line { text: format!("{lead}{}{w}{h}:{size}{trail}", cmd.replace(' ', w)), family, num: Some((k, v)), dqe: None, expect_ok: Some(v < P64), special: None }
        }
        47..=51 => {
            let k = NumKind::Hex;
            let v = num_value(rng, k.bound());
            let h = hex_text(rng, v);
            let cmd = *rng.pick(&["memory", "mem"]);
            if rng.chance(1, 2) {
                Line { text: format!("{lead}{cmd}{w}read{w}{h}{trail}"), family: "memory-read", num: Some((k, v)), dqe: None, expect_ok: Some(v < P64), special: None }
            } else if rng.chance(1, 2) {
                Line { text: format!("{lead}{cmd}{w}write{w}0x10{w}{h}{trail}"), family: "memory-write", num: Some((k, v)), dqe: None, expect_ok: Some(v < P64), special: None }
            } else {
                Line { text: format!("{lead}{cmd}{w}write{w}{h}{w}0xff{trail}"), family: "memory-write", num: Some((k, v)), dqe: None, expect_ok: Some(v < P64), special: None }
            }
        }
        52..=54 => {
            let k = NumKind::Hex;
            let v = num_value(rng, k.bound());
            let h = hex_text(rng, v);
            let cmd = *rng.pick(&["register", "reg"]);
            let reg = *rng.pick(REGS);
            Line { text: format!("{lead}{cmd}{w}write{w}{reg}{w}{h}{trail}"), family: "register-write", num: Some((k, v)), dqe: None, expect_ok: Some(v < P64), special: None }
        }
        55..=58 => {
            let k = NumKind::ThreadSwitch;
            let v = num_value(rng, k.bound());
            Line { text: format!("{lead}thread{w}switch{w}{v}{trail}"), family: "thread-switch", num: Some((k, v)), dqe: None, expect_ok: Some(v < P32), special: None }
        }
        59..=62 => {
            let k = NumKind::FrameSwitch;
            let v = num_value(rng, k.bound());
            let cmd = *rng.pick(&["frame", "f"]);
            Line { text: format!("{lead}{cmd}{w}switch{w}{v}{trail}"), family: "frame-switch", num: Some((k, v)), dqe: None, expect_ok: Some(v < P32), special: None }
        }
        63..=67 => {
            let b = rng.chance(1, 2);
            let k = if b { NumKind::TriggerB } else { NumKind::TriggerW };
            let v = num_value(rng, k.bound());
            Line { text: format!("{lead}trigger{w}{}{w}{v}{trail}", if b { "b" } else { "w" }), family: "trigger", num: Some((k, v)), dqe: None, expect_ok: Some(v < P32), special: None }
        }
        68..=71 => {
            // numeric literal inside an expression / call argument
            let var = *rng.pick(VARS);
            let cmd = *rng.pick(&["var", "vard", "arg", "argd", "watch", "w"]);
            match rng.below(5) {
                0 => {
                    let k = NumKind::DqeSlice;
                    let v = num_value(rng, k.bound());
                    Line { text: format!("{lead}{cmd}{w}{var}[..{v}]"), family: "dqe-slice-bound", num: Some((k, v)), dqe: None, expect_ok: Some(v < P64), special: None }
                }
                1 => {
                    let k = NumKind::Hex;
                    let v = num_value(rng, k.bound());
                    Line { text: format!("{lead}{cmd}{w}(*const T){}", hex_text(rng, v)), family: "dqe-ptrcast", num: Some((k, v)), dqe: None, expect_ok: Some(v < P64), special: None }
                }
                2 => {
                    let k = NumKind::Hex;
                    let v = num_value(rng, k.bound());
                    Line { text: format!("{lead}{cmd}{w}{var}[{}]", hex_text(rng, v)), family: "dqe-index-hex", num: Some((k, v)), dqe: None, expect_ok: Some(v < P64), special: None }
                }
                3 => {
                    let k = NumKind::DqeInt;
                    let v = num_value(rng, k.bound());
                    Line { text: format!("{lead}call{w}f{w}1{w}{v}{trail}"), family: "call-int", num: Some((k, v)), dqe: None, expect_ok: Some(v < P64), special: None }
                }
                _ => {
                    let k = NumKind::DqeInt;
                    let v = num_value(rng, k.bound());
                    Line { text: format!("{lead}{cmd}{w}{var}[{v}]"), family: "dqe-index-int", num: Some((k, v)), dqe: None, expect_ok: Some(v < P64), special: None }
                }
            }
        }
        // ---- expression-carrying commands (the expression is also checked against the model)
        72..=83 => {
            let structured = rng.chance(2, 3);
            // `watch remove <expr>` / `w r <expr>` only with well-formed expressions: when the mutated token list starts
            // with a postfix (`. f`, `[..]`) the line `w r . f` is also the command `w` with the expression `r . f`
            let cmd = if structured { *rng.pick(&["var", "vard", "arg", "argd", "watch", "w", "watch +rw", "watch +w", "watch remove", "w r"]) }
                      else { *rng.pick(&["var", "vard", "arg", "argd", "watch", "w", "watch +rw", "watch +w"]) };
            let (e, special) = gen_structured(rng);
            let mut toks = tokens_of(&e);
            if !structured {
                loop {
                    let mut t2 = toks.clone();
                    mutate(&mut t2, rng);
                    if !ambiguous(&t2) && !t2.is_empty() {
                        toks = t2;
                        break;
                    }
                }
            }
            let text = if rng.chance(1, 2) { render_fancy(&toks, rng) } else { render_canonical(&toks) };
            Line {
                text: format!("{lead}{}{w}{}", cmd.replace(' ', w), text),
                family: if structured { "dqe-structured" } else { "dqe-malformed" },
                num: None,
                dqe: Some((toks, if structured { Some(e) } else { None })),
                expect_ok: None,
                special: if structured { special } else { None },
            }
        }
        84..=86 => {
            // call with literals
            let n = rng.below(7);
            let mut s = format!("{lead}call{w}{}", rng.pick(&["f", "some_fn", "ns_f"]));
            for _ in 0..n {
                let mut g = Gen { rng, want_special: None, used_special: None };
                let l = g.lit(1);
                let mut t = vec![];
                print_lit(&l, &mut t);
                s.push_str(w);
                s.push_str(&render_canonical(&t));
            }
            plain(s, "call", Some(true))
        }
        // ---- mutated and random lines
        _ => {
            let base = loop {
                let l = gen_line(rng);
                if l.family != "mutated" {
                    break l;
                }
            };
            let mut chars: Vec<char> = base.text.chars().collect();
            const ALPHABET: &[char] = &[
                ' ', ' ', '\t', 'a', 'r', 'x', 'b', 'w', '0', '1', '9', 'f', 'F', ':', '.', '[', ']', '(', ')', '{', '}', '*', '&', '~',
                ',', '"', '\'', '+', '-', '_', '<', '>', '#', '/', '\\', 'é', '\0', '\u{1F600}', '\n', '=', '%', '|',
            ];
            let n = rng.range(1, 4);
            for _ in 0..n {
                let len = chars.len();
                let i = rng.below(len.max(1) as u64) as usize;
                match rng.below(8) {
                    0 if len > 0 => {
                        chars.remove(i);
                    }
                    1 if len > 0 => {
                        let c = chars[i];
                        chars.insert(i, c);
                    }
                    2 => chars.insert(i.min(len), *rng.pick(ALPHABET)),
                    3 if len > 0 => chars[i] = *rng.pick(ALPHABET),
                    4 => chars.truncate(i),
                    5 => {
                        // a very long number in place of one digit
                        if let Some(k) = chars.iter().position(|c| c.is_ascii_digit()) {
                            let big: Vec<char> = "9".repeat(rng.range(20, 60) as usize).chars().collect();
                            chars.splice(k..k + 1, big);
                        }
                    }
                    6 => {
                        // swap two words
                        let s: String = chars.iter().collect();
                        let mut ws: Vec<&str> = s.split(' ').collect();
                        if ws.len() >= 2 {
                            let a = rng.below(ws.len() as u64) as usize;
                            let b = rng.below(ws.len() as u64) as usize;
                            ws.swap(a, b);
                        }
                        chars = ws.join(" ").chars().collect();
                    }
                    _ => {
                        let s: String = chars.iter().collect();
                        chars = if rng.chance(1, 2) { s.to_uppercase() } else { format!("{s} {s}") }.chars().collect();
                    }
                }
            }
            plain(chars.into_iter().collect(), "mutated", None)
        }
    }
}

/// long, deeply nested lines (recursion depth / backtracking of the grammar)
fn stress_lines() -> Vec<(String, &'static str)> {
    let n = 3000;
    vec![
        (format!("var {}x{}", "(".repeat(n), ")".repeat(n)), "stress:nested-parens"),
        (format!("var {}x", "(".repeat(n)), "stress:unclosed-parens"),
        (format!("var {}x", "*&~".repeat(n)), "stress:prefix-ops"),
        (format!("var x{}", "[1]".repeat(n)), "stress:index-chain"),
        (format!("var x{}", ".a".repeat(n)), "stress:field-chain"),
        (format!("var x[{}1{}]", "{".repeat(n), "}".repeat(n)), "stress:nested-array-literal"),
        (format!("var x[{}1", "{".repeat(n)), "stress:unclosed-array-literal"),
        (format!("var x[{}1{}]", "A(".repeat(n), ")".repeat(n)), "stress:nested-enum-literal"),
        (format!("var x[{}", "{a:".repeat(n)), "stress:unclosed-struct-literal"),
        (format!("call f {}", "1 ".repeat(n)), "stress:call-args"),
        (format!("break {}", "9".repeat(100000)), "stress:long-number"),
        (format!("watch {}", "(".repeat(n)), "stress:watch-parens"),
        (format!("symbol {}", "a".repeat(200000)), "stress:long-symbol"),
        (format!("{}", " ".repeat(200000)), "stress:blanks"),
    ]
}

pub fn run_console(args: &[String]) -> i32 {
    let seed: u64 = args.first().and_then(|s| s.parse().ok()).unwrap_or(1);
    let count: usize = args.get(1).and_then(|s| s.parse().ok()).unwrap_or(2000);
    let out_dir = args.get(2).cloned().unwrap_or_else(|| "../coq/cases".into());
    let limit_ms: u64 = args.get(4).and_then(|s| s.parse().ok()).unwrap_or(5000);
    install_panic_hook();
    let mut rng = Rng::new(seed);
    let mut worker: Worker<LineJob, LineAns> = Worker::new(line_job, Duration::from_millis(limit_ms));
    let mut cases = CasesFile::new(&["Model.Dqe"], "con_case", "con_check");
    cases.prelude = CONSOLE_PRELUDE.into();
    let mut seen = HashSet::new();
    let mut nontrivial = 0usize;
    let mut hist: BTreeMap<String, u64> = BTreeMap::new();
    let mut samples = vec![];
    let mut metas = vec![];
    let mut errors: Vec<String> = vec![];
    let mut slowest = (0u128, String::new());
    let mut rejected_valid: BTreeMap<String, u64> = BTreeMap::new();
    let mut rejected_examples: Vec<String> = vec![];

    let stress = stress_lines();
    let total = count + stress.len();
    for i in 0..total {
        let line = if i < count {
            gen_line(&mut rng)
        } else {
            let (t, fam) = &stress[i - count];
            plain(t.clone(), fam, None)
        };
        let toks = line.dqe.as_ref().map(|d| d.0.clone()).unwrap_or_default();
        let t0 = std::time::Instant::now();
        let ans = worker.call(LineJob { line: line.text.clone(), toks: toks.clone() });
        let us = t0.elapsed().as_micros();
        if us > slowest.0 {
            slowest = (us, format!("{} ({} chars)", line.family, line.text.len()));
        }
        let class: u8 = match &ans {
            Outcome::Done(a) if a.ok => 0,
            Outcome::Done(_) => 1,
            Outcome::Panic { .. } => 2,
            Outcome::Timeout => 3,
        };
        let cname = ["ok", "err", "panic", "timeout"][class as usize];
        let (site, msg) = match &ans {
            Outcome::Panic { site, msg } => (site.clone(), msg.clone()),
            _ => (String::new(), String::new()),
        };
        let c = if let Some((k, v)) = line.num {
            // a time-out is counted as a crash of this line too
            format!("(CNum (mk_num_case {} {} {}))", k.coq(), cf::n(v), cf::boolean(class >= 2))
        } else if let Some((toks, intended)) = &line.dqe {
            let po = match &ans {
                Outcome::Done(a) if a.ok => match &a.dqe {
                    Some(d) => format!("(PO_ok {})", coq_dq(d)),
                    None => {
                        if errors.len() < 10 {
                            errors.push(format!("{:?} parsed as {} without an expression", line.text, a.kind));
                        }
                        "PO_reject".into()
                    }
                },
                Outcome::Done(_) => "PO_reject".into(),
                _ => "PO_panic".into(),
            };
            format!(
                "(CDqe (mk_parse_case {} {} {}))",
                coq_toks(toks),
                match intended {
                    Some(e) => format!("(Some {})", coq_dq(e)),
                    None => "None".into(),
                },
                po
            )
        } else {
            format!("(CLine {})", cf::n(class as u128))
        };
        if let Outcome::Done(a) = &ans {
            if line.dqe.is_some() {
                for n in &a.notes {
                    if errors.len() < 10 {
                        errors.push(format!("{:?}: {n}", line.text));
                    }
                }
            }
            // a line of the documented grammar with in-range arguments must be accepted
            if line.expect_ok == Some(true) && !a.ok {
                *rejected_valid.entry(line.family.to_string()).or_default() += 1;
                if rejected_examples.len() < 6 {
                    rejected_examples.push(line.text.clone());
                }
            }
        }
        let key = format!("{}|{}", c, line.text);
        let nt = line.text.split_whitespace().count() >= 2;
        if seen.insert(key) && nt {
            nontrivial += 1;
        }
        bump(&mut hist, format!("family:{}", line.family));
        bump(&mut hist, format!("outcome:{cname}"));
        if let Some((k, v)) = line.num {
            let rel = if v < k.bound() - 1 { "below" } else if v == k.bound() - 1 { "max" } else if v == k.bound() { "bound" } else { "above" };
            bump(&mut hist, format!("num:{}:{}", k.coq(), rel));
        }
        if samples.len() < 3 && class == 0 && line.text.len() > 14 && (line.num.is_some() || line.dqe.is_some()) {
            samples.push(serde_json::json!({"line": line.text, "outcome": cname, "command": match &ans { Outcome::Done(a) => a.kind.clone(), _ => String::new() }}));
        }
        let shown: String = line.text.chars().take(300).collect();
        metas.push(serde_json::json!({"line": shown, "len": line.text.len(), "family": line.family, "outcome": cname, "site": site, "msg": msg,
            "special": line.special.map(|s| s.name())}));
        cases.push(c);
    }
    let shard = 500;
    let files = cases.write(&out_dir, "cases_C08_console", shard);
    println!(
        "{}",
        serde_json::json!({"leg": "c08-console", "seed": seed, "cases": total, "distinct_nontrivial": nontrivial,
            "histogram": hist, "samples": samples, "files": files, "errors": errors, "case_meta": metas, "shard": shard,
            "overflow_checks": overflow_checks(), "watchdog_ms": limit_ms,
            "slowest_line_us": slowest.0, "slowest_line": slowest.1,
            "rejected_valid": rejected_valid, "rejected_examples": rejected_examples})
    );
    0
}
