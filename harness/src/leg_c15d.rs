//! C15 disassembly leg: "disassembly shows original instructions, not the debugger's patches".
//! Ground truth = the bytes of the ELF file (never patched) decoded by the harness's own capstone instance.
//!  * library: `Debugger::disasm()` of the function in focus with breakpoints on random instruction starts of that
//!    function, on its first instruction and on the first address behind it (the next function's entry);
//!  * DAP: `disassemble` with a memory reference inside such a function.
//! Each case carries (image bytes, memory bytes as /proc/<pid>/mem shows them, breakpoint addresses, outcome); the
//! verdict is computed inside Coq by `Model/Disasm.v`.
use crate::coqfmt::{self as cf, CasesFile};
use crate::dap;
use crate::e2e;
use crate::rng::Rng;
use bugstalker::debugger::address::RelocatedAddress;
use capstone::prelude::*;
use object::{Object, ObjectSection, ObjectSymbol};
use serde_json::json;
use std::collections::{BTreeMap, HashSet};

pub const NFUN: usize = 8;

/// eight small functions of different sizes, laid out one after another; several have a size that is a multiple of
/// 16 so that the next function starts exactly at their end
pub fn debuggee_src() -> String {
    let mut s = String::new();
    for i in 0..NFUN {
        s.push_str(&format!(
            "#[inline(never)]\n#[no_mangle]\npub extern \"C\" fn d{i}(x: u64) -> u64 {{\n    let mut a = x.wrapping_mul({m});\n",
            i = i,
            m = 3 + 2 * i
        ));
        for k in 0..(i % 4) {
            s.push_str(&format!("    a = a.rotate_left({}) ^ 0x{:x};\n", k + 1, 0x1111 * (k + 1 + i)));
        }
        if i % 2 == 1 {
            s.push_str("    if a & 1 == 1 { a = a.wrapping_add(7); } else { a = a.wrapping_sub(9); }\n");
        }
        s.push_str("    std::hint::black_box(a)\n}\n");
    }
    s.push_str("fn main() {\n    let mut t = 1u64;\n    for round in 0..3u64 {\n");
    for i in 0..NFUN {
        s.push_str(&format!("        t = t.wrapping_add(d{i}(t + round));\n"));
    }
    s.push_str("    }\n    println!(\"T={}\", t);\n}\n");
    s
}

pub struct Fun {
    pub name: String,
    pub lo: u64,
    pub hi: u64,
    pub image: Vec<u8>,
    pub insn_starts: Vec<u64>,
    pub expected: Vec<(u64, String, String)>,
}

fn cs_new() -> Capstone {
    Capstone::new().x86().mode(arch::x86::ArchMode::Mode64).syntax(arch::x86::ArchSyntax::Att).build().expect("capstone")
}

pub fn functions(bin: &std::path::Path) -> Result<Vec<Fun>, String> {
    let data = std::fs::read(bin).map_err(|e| e.to_string())?;
    let f = object::File::parse(&*data).map_err(|e| e.to_string())?;
    let text = f.section_by_name(".text").ok_or("no .text")?;
    let tdata = text.data().map_err(|e| e.to_string())?;
    let taddr = text.address();
    let cs = cs_new();
    let mut out = vec![];
    for i in 0..NFUN {
        let name = format!("d{i}");
        let sym = f.symbols().find(|s| s.name() == Ok(name.as_str())).ok_or(format!("symbol {name} missing"))?;
        let lo = sym.address();
        let hi = lo + sym.size();
        if sym.size() == 0 || lo < taddr || hi > taddr + tdata.len() as u64 {
            return Err(format!("symbol {name} outside .text"));
        }
        let image = tdata[(lo - taddr) as usize..(hi - taddr) as usize].to_vec();
        let insns = cs.disasm_all(&image, lo).map_err(|e| e.to_string())?;
        let expected: Vec<_> = insns
            .iter()
            .map(|x| (x.address(), x.mnemonic().unwrap_or("").to_string(), x.op_str().unwrap_or("").to_string()))
            .collect();
        let insn_starts = expected.iter().map(|e| e.0).collect();
        out.push(Fun { name, lo, hi, image, insn_starts, expected });
    }
    Ok(out)
}

fn load_base(pid: nix::unistd::Pid, bin: &std::path::Path) -> Option<u64> {
    let p = bin.to_string_lossy().to_string();
    e2e::proc_maps(pid).into_iter().filter(|m| m.path == p).map(|m| m.start - m.offset).min()
}

/// the live child of this process that runs `bin`
fn child_running(bin: &std::path::Path) -> Option<nix::unistd::Pid> {
    let me = std::process::id();
    for e in std::fs::read_dir("/proc").ok()?.flatten() {
        let name = e.file_name().to_string_lossy().to_string();
        let Ok(pid) = name.parse::<i32>() else { continue };
        let Ok(stat) = std::fs::read_to_string(format!("/proc/{pid}/stat")) else { continue };
        let Some(rp) = stat.rfind(')') else { continue };
        let fields: Vec<&str> = stat[rp + 1..].split_whitespace().collect();
        if fields.get(1).and_then(|p| p.parse::<u32>().ok()) != Some(me) || fields.first() == Some(&"Z") {
            continue;
        }
        if std::fs::read_link(format!("/proc/{pid}/exe")).ok().as_deref() == Some(bin) {
            return Some(nix::unistd::Pid::from_raw(pid));
        }
    }
    None
}

fn pick_bps(rng: &mut Rng, f: &Fun, next_entry: bool) -> Vec<u64> {
    let mut v: Vec<u64> = vec![];
    let k = rng.below(4) as usize;
    for _ in 0..k {
        v.push(*rng.pick(&f.insn_starts));
    }
    if rng.chance(1, 3) {
        v.push(*f.insn_starts.last().unwrap());
    }
    if next_entry {
        v.push(f.hi);
    }
    v.sort();
    v.dedup();
    v
}

pub fn run(args: &[String]) -> i32 {
    let seed: u64 = args.first().and_then(|s| s.parse().ok()).unwrap_or(1);
    let count: usize = args.get(1).and_then(|s| s.parse().ok()).unwrap_or(120);
    let out_dir = args.get(2).cloned().unwrap_or_else(|| "../coq/cases".into());
    let scratch = args.get(3).cloned().unwrap_or_else(|| "/verif/.scratch/c15d".into());
    let mut rng = Rng::new(seed ^ 0xC15D);
    let bin = match e2e::compile(&scratch, "disasmdebuggee", &debuggee_src(), &["-C", "llvm-args=-align-all-functions=1"], None) {
        Ok(b) => b,
        Err(e) => {
            eprintln!("compile failed: {e}");
            return 3;
        }
    };
    let funs = match functions(&bin) {
        Ok(f) => f,
        Err(e) => {
            eprintln!("functions: {e}");
            return 3;
        }
    };
    let adjacent: usize = (0..NFUN).filter(|i| funs.iter().any(|g| g.lo == funs[*i].hi)).count();
    let mut cases = CasesFile::new(&["Model.Disasm"], "disasm_case", "disasm_check");
    let mut hist: BTreeMap<String, u64> = BTreeMap::new();
    let mut seen = HashSet::new();
    let mut nontrivial = 0usize;
    let mut samples = vec![];
    let mut errors: Vec<String> = vec![];
    let cs = cs_new();

    // ---------------- library: Debugger::disasm()
    let lib_cases = count * 2 / 3;
    let mut done = 0usize;
    let mut session_no = 0u64;
    while done < lib_cases {
        session_no += 1;
        let mut s = match e2e::launch(&bin, &[]) {
            Ok(s) => s,
            Err(e) => {
                eprintln!("launch: {e}");
                return 3;
            }
        };
        for f in &funs {
            if let Err(e) = s.dbg.set_breakpoint_at_fn(&f.name) {
                errors.push(format!("break {}: {e}", f.name));
            }
        }
        if let Err(e) = s.dbg.start_debugee() {
            errors.push(format!("start: {e}"));
            break;
        }
        let pid = s.pid_now();
        let base = match load_base(pid, &bin) {
            Some(b) => b,
            None => {
                errors.push("no load base".into());
                break;
            }
        };
        // one visit per function (the disassembler caches per function range): stops arrive in the order d0..d7
        for (fi, f) in funs.iter().enumerate() {
            if done >= lib_cases {
                break;
            }
            let pc = nix::sys::ptrace::getregs(pid).map(|r| r.rip).unwrap_or(0);
            if pc < base + f.lo || pc >= base + f.hi {
                errors.push(format!("session {session_no}: expected a stop in {} but pc = {:#x}", f.name, pc));
                break;
            }
            let next_is_fn = funs.iter().any(|g| g.lo == f.hi);
            let with_next = next_is_fn && rng.chance(1, 2);
            let bps = pick_bps(&mut rng, f, with_next);
            let mut set: Vec<u64> = vec![];
            for a in &bps {
                if s.dbg.set_breakpoint_at_addr(RelocatedAddress::from((base + a) as usize)).is_ok() {
                    set.push(*a);
                }
            }
            // every address that carries a trap byte in [lo, hi]: what we set + the entry breakpoints of this and the next function
            let mem = e2e::proc_mem_read(pid, base + f.lo, (f.hi - f.lo) as usize).unwrap_or_default();
            let mut patched: Vec<u64> = (0..mem.len()).filter(|i| mem[*i] != f.image[*i]).map(|i| f.lo + i as u64).collect();
            if with_next || funs.get(fi + 1).map(|g| g.lo == f.hi).unwrap_or(false) {
                // the next function's entry breakpoint (set by name above) lies in its prologue, not at f.hi, unless set by address
            }
            if set.contains(&f.hi) {
                patched.push(f.hi);
            }
            let r = std::panic::catch_unwind(std::panic::AssertUnwindSafe(|| s.dbg.disasm()));
            let outcome = match &r {
                Err(_) => 3u32,
                Ok(Err(_)) => 2,
                Ok(Ok(asm)) => {
                    let got: Vec<(u64, String, String)> = asm
                        .instructions
                        .iter()
                        .map(|i| (usize::from(i.address) as u64, i.mnemonic.clone().unwrap_or_default(), i.operands.clone().unwrap_or_default()))
                        .collect();
                    if got == f.expected { 0 } else { 1 }
                }
            };
            *hist.entry(format!("lib:outcome:{}", ["original", "differs", "error", "panic"][outcome as usize])).or_default() += 1;
            *hist.entry(format!("lib:patches_in_function:{}", patched.iter().filter(|a| **a < f.hi).count().min(4))).or_default() += 1;
            *hist.entry(format!("lib:breakpoint_at_end:{}", set.contains(&f.hi))).or_default() += 1;
            let case = format!(
                "DLib {} {} {} {} {}",
                cf::n(f.lo as u128),
                cf::bytes(&f.image),
                cf::bytes(&mem),
                cf::list(&patched, |a| cf::n(*a as u128)),
                cf::n(outcome as u128)
            );
            if seen.insert(case.clone()) && patched.len() >= 2 {
                nontrivial += 1;
            }
            let outcome_name = ["original", "differs", "error", "panic"][outcome as usize];
            if samples.len() < 3 && outcome != 0 {
                samples.push(json!({"api": "Debugger::disasm", "function": f.name, "breakpoints_at": patched.iter().map(|a| format!("{:#x}", a)).collect::<Vec<_>>(),
                    "function_end": format!("{:#x}", f.hi), "outcome": outcome_name}));
            }
            cases.push(case);
            done += 1;
            // remove what we added, go to the next function
            for a in &set {
                let _ = s.dbg.remove_breakpoint(bugstalker::debugger::address::Address::Relocated(RelocatedAddress::from((base + a) as usize)));
            }
            if outcome == 3 {
                break; // the debugger's state after a panic is not trusted: new session
            }
            if s.dbg.continue_debugee().is_err() {
                break;
            }
        }
        drop(s);
        if session_no > (count as u64) * 2 + 10 {
            errors.push("too many sessions".into());
            break;
        }
    }

    // ---------------- DAP: disassemble
    let dap_cases = count - lib_cases.min(count);
    let bin_s = bin.to_string_lossy().to_string();
    let mut dap_done = 0usize;
    let mut tries = 0;
    while dap_done < dap_cases && tries < dap_cases * 2 + 5 {
        tries += 1;
        let fi = rng.below(NFUN as u64) as usize;
        let f = &funs[fi];
        let mut c = dap::Client::start();
        let mut ok = true;
        let q = c.send("initialize", json!({"adapterID": "bs", "linesStartAt1": true, "columnsStartAt1": true}));
        ok &= c.wait_response(q, 60000).map(|r| r["success"] == true).unwrap_or(false);
        let q = c.send("launch", json!({"program": bin_s, "args": []}));
        ok &= c.wait_response(q, 60000).map(|r| r["success"] == true).unwrap_or(false);
        let q = c.send("setFunctionBreakpoints", json!({"breakpoints": [{"name": f.name}]}));
        ok &= c.wait_response(q, 60000).map(|r| r["success"] == true).unwrap_or(false);
        let from = c.log_len();
        let q = c.send("configurationDone", json!({}));
        ok &= c.wait_response(q, 60000).is_some();
        ok &= c.wait_event("stopped", from, 60000).is_some();
        if !ok {
            errors.push(format!("dap: could not reach the stop in {}", f.name));
            let q = c.send("disconnect", json!({"terminateDebuggee": true}));
            let _ = c.wait_response(q, 20000);
            c.close(20000);
            continue;
        }
        // the debuggee is a child of this process: find it through /proc and take the load base from its maps
        let Some(cpid) = child_running(&bin) else {
            errors.push("dap: debuggee process not found".into());
            let q = c.send("disconnect", json!({"terminateDebuggee": true}));
            let _ = c.wait_response(q, 20000);
            c.close(20000);
            continue;
        };
        let Some(base) = load_base(cpid, &bin) else {
            errors.push("dap: no load base".into());
            let q = c.send("disconnect", json!({"terminateDebuggee": true}));
            let _ = c.wait_response(q, 20000);
            c.close(20000);
            continue;
        };
        // more breakpoints inside f through setInstructionBreakpoints
        let extra = pick_bps(&mut rng, f, false);
        let q = c.send(
            "setInstructionBreakpoints",
            json!({"breakpoints": extra.iter().map(|a| json!({"instructionReference": format!("0x{:x}", base + a)})).collect::<Vec<_>>()}),
        );
        let _ = c.wait_response(q, 60000);
        // where the trap bytes are: what /proc/<pid>/mem shows differing from the file
        let mem = e2e::proc_mem_read(cpid, base + f.lo, (f.hi - f.lo) as usize).unwrap_or_default();
        let patched: Vec<u64> = (0..mem.len()).filter(|i| mem[*i] != f.image[*i]).map(|i| f.lo + i as u64).collect();
        if mem.len() != f.image.len() {
            errors.push("dap: could not read the debuggee's text".into());
        }
        let n_ins = f.expected.len();
        let q = c.send("disassemble", json!({"memoryReference": format!("0x{:x}", base + f.lo), "instructionCount": n_ins}));
        let r = c.wait_response(q, 60000);
        let (succ, got_bytes, got_text): (bool, Vec<u8>, Vec<String>) = match &r {
            Some(r) if r["success"] == true => {
                let mut b = vec![];
                let mut t = vec![];
                for ins in r["body"]["instructions"].as_array().cloned().unwrap_or_default() {
                    let hx = ins["instructionBytes"].as_str().unwrap_or("").to_string();
                    for k in (0..hx.len() / 2).map(|k| u8::from_str_radix(&hx[2 * k..2 * k + 2], 16).unwrap_or(0)) {
                        b.push(k);
                    }
                    t.push(ins["instruction"].as_str().unwrap_or("").to_string());
                }
                (true, b, t)
            }
            _ => (false, vec![], vec![]),
        };
        // the adapter decodes at run-time addresses (branch targets are printed relocated)
        let want_text: Vec<String> = match cs.disasm_all(&f.image, base + f.lo) {
            Ok(v) => v
                .iter()
                .map(|x| {
                    let (m, o) = (x.mnemonic().unwrap_or("<unknown>"), x.op_str().unwrap_or(""));
                    if o.is_empty() { m.to_string() } else { format!("{m} {o}") }
                })
                .collect(),
            Err(_) => vec![],
        };
        let text_ok = succ && got_text == want_text;
        *hist.entry(format!("dap:outcome:{}", if !succ { "error" } else if text_ok { "original" } else { "differs" })).or_default() += 1;
        *hist.entry(format!("dap:patches_in_function:{}", patched.len().min(4))).or_default() += 1;
        // memory as the process holds it now
        // (the DAP session owns the tracee; /proc/<pid>/mem needs no ptrace relation for a child of this process)
        let case = format!(
            "DDap {} {} {} {} {} {}",
            cf::n(f.lo as u128),
            cf::bytes(&f.image),
            cf::list(&patched, |a| cf::n(*a as u128)),
            cf::boolean(succ),
            cf::bytes(&got_bytes),
            cf::boolean(text_ok)
        );
        if seen.insert(case.clone()) && patched.len() >= 2 {
            nontrivial += 1;
        }
        if samples.len() < 5 && !text_ok {
            samples.push(json!({"api": "DAP disassemble", "function": f.name, "breakpoints_at": patched.iter().map(|a| format!("{:#x}", a)).collect::<Vec<_>>(),
                "first_difference": got_text.iter().zip(want_text.iter()).find(|(a, b)| a != b).map(|(a, b)| format!("shown `{a}`, original `{b}`"))}));
        }
        cases.push(case);
        dap_done += 1;
        let q = c.send("disconnect", json!({"terminateDebuggee": true}));
        let _ = c.wait_response(q, 20000);
        let (fin, _) = c.close(20000);
        if !fin {
            errors.push("dap: session thread did not finish".into());
            break;
        }
    }

    let files = cases.write(&out_dir, "cases_C15_disasm", 150);
    println!(
        "{}",
        json!({"leg": "c15-disasm", "seed": seed, "cases": cases.cases.len(), "distinct_nontrivial": nontrivial,
            "histogram": hist, "samples": samples, "files": files, "errors": errors,
            "functions": NFUN, "functions_followed_directly_by_another": adjacent})
    );
    0
}
