mod rng;
mod coqfmt;
mod leg_c17;

fn main() {
    let args: Vec<String> = std::env::args().collect();
    if args.len() < 2 {
        eprintln!("usage: bsv <leg> [args..]");
        std::process::exit(2);
    }
    let rest = &args[2..];
    let code = match args[1].as_str() {
        "c17-unit" => leg_c17::run(rest),
        other => {
            eprintln!("unknown leg {other}");
            2
        }
    };
    std::process::exit(code);
}
