mod rng;
mod coqfmt;
mod e2e;
mod gen_prog;
mod reftrace;
mod leg_c10;
mod dap;
mod leg_c12;
mod leg_c14;
mod leg_c01;
mod leg_c05;
mod leg_c15;
mod leg_c17;
mod dbg_tmp;

fn main() {
    let args: Vec<String> = std::env::args().collect();
    if args.len() < 2 {
        eprintln!("usage: bsv <leg> [args..]");
        std::process::exit(2);
    }
    let rest = &args[2..];
    let code = match args[1].as_str() {
        "c17-unit" => leg_c17::run(rest),
        "c14-unit" => leg_c14::run_unit(rest),
        "c14-e2e" => leg_c14::run_e2e(rest),
        "c15-e2e" => leg_c15::run(rest),
        "c05-e2e" => leg_c05::run(rest),
        "c10-e2e" => leg_c10::run(rest),
        "c12-e2e" => leg_c12::run(rest),
        "c01-e2e" => leg_c01::run(rest),
        "dbg" => dbg_tmp::run(rest),
        other => {
            eprintln!("unknown leg {other}");
            2
        }
    };
    std::process::exit(code);
}
