mod rng;
mod coqfmt;
mod e2e;
mod gen_prog;
mod reftrace;
mod dqe_ast;
mod c06_gen;
mod c06_dwarf;
mod leg_c06;
mod leg_c07;
mod leg_c07_eval;
mod leg_c08_dap;
mod leg_c09;
mod leg_c10;
mod dap;
mod leg_c11;
mod leg_c12;
mod leg_c13;
mod leg_c14;
mod leg_c01;
mod iso;
mod lineinfo;
mod leg_c03;
mod leg_c04;
mod leg_c05;
mod leg_c15;
mod leg_c15d;
mod leg_c16;
mod leg_c17;
mod leg_c18;
mod scope_src;
mod dwarfdump;
mod leg_c19;
mod dbg_tmp;

fn main() {
    let args: Vec<String> = std::env::args().collect();
    if args.len() < 2 {
        eprintln!("usage: bsv <leg> [args..]");
        std::process::exit(2);
    }
    let rest = &args[2..];
    let code = match args[1].as_str() {
        "c17-unit" => leg_c17::run(rest),
        "c14-unit" => leg_c14::run_unit(rest),
        "c14-e2e" => leg_c14::run_e2e(rest),
        "c15-e2e" => leg_c15::run(rest),
        "c15-disasm" => leg_c15d::run(rest),
        "c16-marg" => leg_c16::run_marg(rest),
        "c16-e2e" => leg_c16::run_e2e(rest),
        "c16-e2e-worker" => leg_c16::run_worker(rest),
        "c16-e2e-cache" => leg_c16::run_cache(rest),
        "c05-e2e" => leg_c05::run(rest),
        "c03-e2e" => leg_c03::run(rest),
        "c11-e2e" => leg_c11::run(rest),
        "c04-e2e" => leg_c04::run(rest),
        "c04-witness" => leg_c04::run_witness(rest),
        "c18-e2e" => leg_c18::run(rest),
        "c19-e2e" => leg_c19::run(rest),
        "c10-e2e" => leg_c10::run(rest),
        "c10-acct" => leg_c10::run_acct(rest),
        "c08-dap" => leg_c08_dap::run(rest),
        "c09-e2e" => leg_c09::run(rest),
        "c09-e2e-worker" => leg_c09::run_worker(rest),
        "c09-repro" => leg_c09::run_repro(rest),
        "c06-e2e" => leg_c06::run_e2e(rest),
        "c06-unit" => leg_c06::run_unit(rest),
        "c06-src" => leg_c06::run_src(rest),
        "c07-parse" => leg_c07::run_parse(rest),
        "c07-eval" => leg_c07_eval::run(rest),
        "c07-eval-probe" => leg_c07_eval::run_probe(rest),
        "c08-console" => leg_c07::run_console(rest),
        "c12-e2e" => leg_c12::run(rest),
        "c13-hc" => leg_c13::run_hc(rest),
        "c13-e2e" => leg_c13::run_e2e(rest),
        "c01-e2e" => leg_c01::run(rest),
        "dbg" => dbg_tmp::run(rest),
        other => {
            eprintln!("unknown leg {other}");
            2
        }
    };
    std::process::exit(code);
}
