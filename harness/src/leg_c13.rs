//! C13 legs.
//!  * `c13-hc`  : unit cases for `HitCondition::parse` / `matches` over a grammar of condition strings.
//!  * `c13-e2e` : request histories (setBreakpoints / setFunctionBreakpoints / setInstructionBreakpoints /
//!                setDataBreakpoints interleaved with configurationDone / continue / restart) against a real
//!                `DebugSession` (in-memory DAP client) and a real debuggee.  Ground truth for arrivals is the
//!                harness's reference tracer: the native instruction trace of the debuggee plus a clock cell in
//!                the debuggee's memory that makes every (pc, clock) pair unique.  Each history is printed as a
//!                `hist_case` for `hist_check`, and the specification is ALSO decided here at the observable
//!                level (stop locations, `verified`, outputs) -- that verdict travels with the case.
use crate::coqfmt::{self as cf, CasesFile};
use crate::dap::Client;
use crate::e2e;
use crate::reftrace;
use crate::rng::Rng;
use serde_json::{Value, json};
use std::collections::{BTreeMap, BTreeSet, HashMap, HashSet};

pub const PIE_BIAS: u64 = 0x5555_5555_4000;

// ------------------------------------------------------------------------------------------------
// c13-hc
// ------------------------------------------------------------------------------------------------

fn gen_number(rng: &mut Rng) -> String {
    let base = match rng.below(12) {
        0 => rng.below(12).to_string(),
        1 => rng.below(12).to_string(),
        2 => (rng.next() as u32).to_string(),
        3 => rng.next().to_string(),
        4 => "18446744073709551615".to_string(),
        5 => "18446744073709551616".to_string(),
        6 => "18446744073709551617".to_string(),
        7 => (*rng.pick(&["9223372036854775807", "9223372036854775808", "18446744073709551614", "18446744073709551625", "28446744073709551615"])).to_string(),
        8 => "99999999999999999999".to_string(),
        9 => (0..rng.range(21, 30)).map(|_| char::from(b'0' + rng.below(10) as u8)).collect(),
        10 => "0".to_string(),
        _ => rng.below(5).to_string(),
    };
    if rng.chance(1, 6) { format!("{}{}", "0".repeat(rng.range(1, 24) as usize), base) } else { base }
}

pub fn run_hc(args: &[String]) -> i32 {
    use bugstalker::dap::yadap::session::breakpoint::verif_hit_condition;
    let seed: u64 = args.first().and_then(|s| s.parse().ok()).unwrap_or(1);
    let count: usize = args.get(1).and_then(|s| s.parse().ok()).unwrap_or(1000);
    let out_dir = args.get(2).cloned().unwrap_or_else(|| "../coq/cases".into());
    let mut rng = Rng::new(seed ^ 0xC13_0001);
    let ops = ["", "", "=", "==", ">=", ">", "<", "<="];
    let wss = ["", "", "", " ", "  ", "\t", "\n", " \t ", "\r", "\x0b", "\x0c", " \n\r"];
    let fixed_bad = [
        "%2", "> =3", "=>3", "=<3", "-1", "0x10", "1_0", "", " ", "+", ">=", "<", "= =3", "3 4", "++3", "+ 3", "> +", "3+", "3=", "==", "===3", ">>3",
        "<>3", "!3", "!=3", "3.0", "1e3", "-0", "+-1", "٣", "three", ">= -1", "<= 1 2", "=\t=2", "> 18446744073709551616", "<=184467440737095516150",
        "\u{b}5", "5\u{c}", "5\0", "\0", "5;", "(5)", "\"5\"",
    ];
    let alphabet: Vec<char> = "0123456789<>=+- \t%x_!".chars().collect();
    let mut cases = CasesFile::new(&["Model.DapBp"], "hc_case", "hc_check");
    let mut hist: BTreeMap<String, u64> = BTreeMap::new();
    let mut seen = HashSet::new();
    let mut nontrivial = 0usize;
    let mut samples = vec![];
    let tags = ["Exact", "GreaterOrEqual", "Greater", "Less", "LessOrEqual", "Invalid"];
    for _ in 0..count {
        let stream;
        let s: String = if rng.chance(2, 3) {
            stream = "grammar";
            let sign = if rng.chance(1, 5) { "+" } else { "" };
            format!("{}{}{}{}{}{}", rng.pick(&wss), rng.pick(&ops), rng.pick(&wss), sign, gen_number(&mut rng), rng.pick(&wss))
        } else if rng.chance(1, 2) {
            stream = "malformed-fixed";
            (*rng.pick(&fixed_bad)).to_string()
        } else {
            stream = "malformed-random";
            (0..rng.range(1, 7)).map(|_| *rng.pick(&alphabet)).collect()
        };
        // ASCII only: the model's trim is the ASCII part of str::trim
        let s: String = if s.is_ascii() { s } else { "?3".to_string() };
        let (tag0, v0, _) = verif_hit_condition(&s, 0);
        let n: u64 = match rng.below(8) {
            0 => 0,
            1 => 1,
            2 => v0.wrapping_sub(1),
            3 | 4 => v0,
            5 => v0.wrapping_add(1),
            6 => u64::MAX,
            _ => rng.below(8),
        };
        let (tag, v, m) = verif_hit_condition(&s, n);
        debug_assert_eq!((tag, v), (tag0, v0));
        let case = format!("({}, {}, ({}, {}), {})", cf::bytes(s.as_bytes()), cf::n(n as u128), cf::n(tag as u128), cf::n(v as u128), cf::boolean(m));
        if seen.insert((s.clone(), n)) && !s.trim().is_empty() {
            nontrivial += 1;
        }
        *hist.entry(format!("stream:{stream}")).or_default() += 1;
        *hist.entry(format!("parsed:{}", tags[tag as usize])).or_default() += 1;
        *hist.entry(format!("matches:{m}")).or_default() += 1;
        if samples.len() < 3 {
            samples.push(json!({"input": s, "hits": n, "parsed": format!("{}({})", tags[tag as usize], v), "matches": m}));
        }
        cases.push(case);
    }
    let files = cases.write(&out_dir, "cases_C13_hc", 1000);
    println!(
        "{}",
        json!({"leg": "c13-hc", "seed": seed, "cases": cases.cases.len(), "distinct_nontrivial": nontrivial, "histogram": hist,
            "samples": samples, "files": files, "errors": Vec::<String>::new()})
    );
    0
}

// ------------------------------------------------------------------------------------------------
// c13-e2e
// ------------------------------------------------------------------------------------------------

pub const DEBUGGEE: &str = r#"static mut CLOCK: u64 = 0;
static mut PAD: [u64; 4] = [0; 4];
#[inline(never)]
fn clk() {
    unsafe { std::ptr::write_volatile(std::ptr::addr_of_mut!(CLOCK), std::ptr::read_volatile(std::ptr::addr_of!(CLOCK)) + 1) }
}
#[inline(never)]
fn tick(n: u64) -> u64 {
    let x = n * 2 + 1; // @TICK
    std::hint::black_box(x) // @TICK2
}
#[inline(never)]
fn genf<T: std::fmt::Debug>(t: T) -> usize {
    let y = format!("{t:?}"); // @GEN
    y.len() // @GEN2
}
fn main() {
    let pad = unsafe { std::ptr::read_volatile(std::ptr::addr_of!(PAD[1])) };
    let mut acc = pad;
    let mut i = 0u64;
    while i < 5 {
        clk();
        acc += tick(i); // @LOOP
        // @BLANK
        i += 1; // @LOOP2
    }
    clk();
    let a = genf(7u32);
    clk();
    let b = genf("xy");
    clk();
    let c = genf(9u32);
    clk();
    let d = tick(100); // @AFTER
    std::process::exit(((acc as usize + a + b + c + d as usize) % 7) as i32);
}
"#;

fn marker_line(tag: &str) -> u64 {
    let needle = format!("// @{tag}");
    DEBUGGEE.lines().position(|l| l.trim_end().ends_with(&needle)).map(|i| i as u64 + 1).unwrap_or(0)
}

#[derive(Clone, Debug, Default, PartialEq)]
struct Opts {
    cond: Option<String>,
    hit: Option<String>,
    log: Option<String>,
}
impl Opts {
    fn has_cond(&self) -> bool {
        self.cond.as_deref().map(|s| !s.trim().is_empty()).unwrap_or(false)
    }
    fn has_log(&self) -> bool {
        self.log.as_deref().map(|s| !s.trim().is_empty()).unwrap_or(false)
    }
    fn term(&self) -> String {
        format!("mk_opts {} {} {}", cf::boolean(self.has_cond()), cf::option(&self.hit, |h| cf::bytes(h.as_bytes())), cf::boolean(self.has_log()))
    }
    fn json_into(&self, o: &mut serde_json::Map<String, Value>) {
        if let Some(c) = &self.cond {
            o.insert("condition".into(), json!(c));
        }
        if let Some(h) = &self.hit {
            o.insert("hitCondition".into(), json!(h));
        }
        if let Some(l) = &self.log {
            o.insert("logMessage".into(), json!(l));
        }
    }
}

#[derive(Clone, Debug)]
enum Req {
    SetSource(Vec<(u64, Opts)>),
    SetFunction(Vec<(Option<usize>, Opts)>),
    SetInstruction(Vec<(Option<u64>, Opts)>),
    SetData(Vec<Option<u64>>),
    Start,
    Continue,
    Restart,
}

/// tables of the external behaviour (the model's Section variables) + ground truth
struct World {
    bin: std::path::PathBuf,
    src: String,
    bias: u64,
    trace: Vec<u64>,
    clock_at: Vec<u64>,
    lines: BTreeMap<u64, Vec<u64>>, // line -> global addresses in view order
    fn_names: Vec<String>,
    fns: Vec<Vec<u64>>,     // per name: global addresses in view order
    ins_cands: Vec<u64>,    // relocated candidate addresses (valid and invalid)
    ins_valid: Vec<u64>,    // those a running debugger accepts
    clock_addr: u64,        // relocated
    pad_addr: u64,          // relocated, never written
    ranges: HashMap<&'static str, (u64, u64)>,
    clock_expr_ok: bool,
}

const SRC_LINES: &[&str] = &["TICK", "TICK2", "GEN", "GEN2", "LOOP", "BLANK", "LOOP2", "AFTER"];

struct Dap {
    c: Client,
}
struct RunOut {
    ok: bool,
    stopped: Option<String>,
    exited: bool,
    console: Vec<String>,
    timeout: bool,
}
impl Dap {
    fn req(&mut self, cmd: &str, args: Value) -> Option<Value> {
        let seq = self.c.send(cmd, args);
        self.c.wait_response(seq, 60000)
    }
    fn state(&mut self) -> Value {
        self.req("verifState", json!({})).map(|r| r["body"].clone()).unwrap_or(Value::Null)
    }
    /// a request that resumes the debuggee: wait for its response and for the stop / end of the run
    fn run(&mut self, cmd: &str, args: Value) -> RunOut {
        let from = self.c.log_len();
        let seq = self.c.send(cmd, args);
        let resp = self.c.wait_response(seq, 60000);
        let ok = resp.as_ref().map(|r| r["success"] == true).unwrap_or(false);
        let mut out = RunOut { ok, stopped: None, exited: false, console: vec![], timeout: resp.is_none() };
        if !ok {
            return out;
        }
        let t0 = std::time::Instant::now();
        loop {
            let tr = self.c.transcript();
            let mut end = None;
            for (k, m) in tr.iter().enumerate().skip(from) {
                if m["type"] == "event" && m["event"] == "stopped" {
                    out.stopped = Some(m["body"]["reason"].as_str().unwrap_or("?").to_string());
                    end = Some(k);
                    break;
                }
                if m["type"] == "event" && (m["event"] == "exited" || m["event"] == "terminated") {
                    out.exited = true;
                    end = Some(k);
                    break;
                }
            }
            if let Some(k) = end {
                out.console = tr[from..k]
                    .iter()
                    .filter(|m| m["type"] == "event" && m["event"] == "output" && m["body"]["category"] == "console")
                    .map(|m| m["body"]["output"].as_str().unwrap_or("").to_string())
                    .collect();
                return out;
            }
            if t0.elapsed().as_millis() > 30000 {
                out.timeout = true;
                return out;
            }
            std::thread::sleep(std::time::Duration::from_millis(2));
        }
    }
    fn finish(mut self) -> (bool, bool) {
        let _ = self.req("disconnect", json!({"terminateDebuggee": true}));
        self.c.close(3000)
    }
}

fn snapshot_of(st: &Value) -> Vec<(u64, u64, u64)> {
    st["snapshot"].as_array().map(|a| a.iter().map(|e| (e[0].as_u64().unwrap_or(0), e[1].as_u64().unwrap_or(9), e[2].as_u64().unwrap_or(0))).collect()).unwrap_or_default()
}
fn snap_term(s: &[(u64, u64, u64)]) -> String {
    cf::list(s, |(n, k, a)| format!("({}, {}, {})", cf::n(*n as u128), cf::n(*k as u128), cf::n(*a as u128)))
}
fn alive(pid: i64) -> bool {
    match std::fs::read_to_string(format!("/proc/{pid}/stat")) {
        Ok(s) => s.rfind(')').map(|rp| !s[rp + 1..].trim_start().starts_with('Z') && !s[rp + 1..].trim_start().starts_with('X')).unwrap_or(false),
        Err(_) => false,
    }
}
fn read_clock(w: &World, pid: i64) -> Option<u64> {
    e2e::proc_mem_read(nix::unistd::Pid::from_raw(pid as i32), w.clock_addr, 8).ok().map(|b| u64::from_le_bytes(b.try_into().unwrap()))
}

fn bp_json_line(line: u64, o: &Opts) -> Value {
    let mut m = serde_json::Map::new();
    m.insert("line".into(), json!(line));
    o.json_into(&mut m);
    Value::Object(m)
}

fn send_set(d: &mut Dap, w: &World, r: &Req) -> Option<Value> {
    match r {
        Req::SetSource(bps) => d.req("setBreakpoints", json!({"source": {"path": w.src}, "breakpoints": bps.iter().map(|(l, o)| bp_json_line(*l, o)).collect::<Vec<_>>() })),
        Req::SetFunction(bps) => d.req(
            "setFunctionBreakpoints",
            json!({"breakpoints": bps.iter().map(|(f, o)| { let mut m = serde_json::Map::new(); if let Some(f) = f { m.insert("name".into(), json!(w.fn_names[*f])); } o.json_into(&mut m); Value::Object(m) }).collect::<Vec<_>>()}),
        ),
        Req::SetInstruction(bps) => d.req(
            "setInstructionBreakpoints",
            json!({"breakpoints": bps.iter().map(|(a, o)| { let mut m = serde_json::Map::new(); match a { Some(a) => { m.insert("instructionReference".into(), json!(format!("0x{a:x}"))); } None => { m.insert("instructionReference".into(), json!("zzz")); } } o.json_into(&mut m); Value::Object(m) }).collect::<Vec<_>>()}),
        ),
        Req::SetData(bps) => d.req(
            "setDataBreakpoints",
            json!({"breakpoints": bps.iter().map(|a| match a { Some(a) => json!({"dataId": format!("0x{a:x}:8"), "accessType": "write"}), None => json!({"accessType": "write"}) }).collect::<Vec<_>>()}),
        ),
        _ => None,
    }
}

fn creq_term(r: &Req) -> String {
    match r {
        Req::SetSource(bps) => format!("CSetSource 1 {}", cf::list(bps, |(l, o)| format!("({}, {})", cf::n(*l as u128), o.term()))),
        Req::SetFunction(bps) => format!("CSetFunction {}", cf::list(bps, |(f, o)| format!("({}, {})", cf::option(f, |f| cf::n(*f as u128)), o.term()))),
        Req::SetInstruction(bps) => format!("CSetInstruction {}", cf::list(bps, |(a, o)| format!("({}, {})", cf::option(a, |a| cf::n(*a as u128)), o.term()))),
        Req::SetData(bps) => format!("CSetData {}", cf::list(bps, |a| cf::option(a, |a| cf::n(*a as u128)))),
        Req::Start => "CStart".into(),
        Req::Restart => "CRestart".into(),
        Req::Continue => "?".into(),
    }
}

fn rbps_term(resp: &Option<Value>) -> (String, Vec<(bool, i64)>) {
    let v: Vec<(bool, i64)> = resp
        .as_ref()
        .and_then(|r| r["body"]["breakpoints"].as_array().cloned())
        .unwrap_or_default()
        .iter()
        .map(|b| (b["verified"].as_bool().unwrap_or(false), b["id"].as_i64().unwrap_or(0)))
        .collect();
    (format!("RBps {}", cf::list(&v, |(b, id)| format!("({}, {})", cf::boolean(*b), cf::n((*id).max(0) as u128)))), v)
}

/// build the world: compile, reference trace, probe the resolver with a live session
fn prepare(scratch: &str) -> Result<World, String> {
    let bin = e2e::compile(scratch, "c13prog", DEBUGGEE, &[], None)?;
    let src = format!("{scratch}/c13prog.rs");
    let bias = PIE_BIAS;
    let syms = reftrace::symbols(&bin);
    let mut ranges: HashMap<&'static str, (u64, u64)> = HashMap::new();
    let mut gen_ranges = vec![];
    for (n, a, s) in &syms {
        match n.as_str() {
            "c13prog::main" => { ranges.insert("main", (a + bias, a + bias + s)); }
            "c13prog::tick" => { ranges.insert("tick", (a + bias, a + bias + s)); }
            "c13prog::clk" => { ranges.insert("clk", (a + bias, a + bias + s)); }
            "c13prog::genf" => gen_ranges.push((a + bias, a + bias + s)),
            _ => {}
        }
    }
    if ranges.len() != 3 || gen_ranges.len() != 2 {
        return Err(format!("unexpected symbols: {ranges:?} {gen_ranges:?}"));
    }
    let nm = std::process::Command::new("nm").arg("-C").arg(&bin).output().map_err(|e| e.to_string())?;
    let nm = String::from_utf8_lossy(&nm.stdout).to_string();
    let data_sym = |name: &str| nm.lines().find(|l| l.ends_with(name)).and_then(|l| u64::from_str_radix(l.split_whitespace().next()?, 16).ok());
    let clock_addr = data_sym("c13prog::CLOCK").ok_or("no CLOCK symbol")? + bias;
    let pad_addr = data_sym("c13prog::PAD").ok_or("no PAD symbol")? + bias;
    let mut all_ranges: Vec<(u64, u64)> = ranges.values().cloned().collect();
    all_ranges.extend(gen_ranges.iter().cloned());
    let main_addr = ranges["main"].0;
    let (native_out, native_code) = reftrace::native_run(&bin, &[]);
    let tr = reftrace::trace(&bin, &[], &all_ranges, main_addr, 4_000_000)?;
    if tr.truncated || tr.exit_code != native_code || tr.stdout != native_out {
        return Err("reference trace does not match the native run".into());
    }
    let trace: Vec<u64> = tr.steps.iter().map(|(pc, _)| *pc).collect();
    let clk_entry = ranges["clk"].0;
    let mut clock_at = Vec::with_capacity(trace.len());
    let mut k = 0u64;
    for pc in &trace {
        clock_at.push(k);
        if *pc == clk_entry {
            k += 1;
        }
    }
    if k != 9 {
        return Err(format!("reference trace saw {k} clk() calls, 9 expected"));
    }
    ranges.insert("gen0", gen_ranges[0]);
    ranges.insert("gen1", gen_ranges[1]);
    let mut w = World {
        bin, src, bias, trace, clock_at, lines: BTreeMap::new(), fn_names: vec!["tick".into(), "genf".into(), "nosuchfn_c13".into(), "clk".into()],
        fns: vec![], ins_cands: vec![], ins_valid: vec![], clock_addr, pad_addr, ranges, clock_expr_ok: false,
    };
    // ---- probe session: the resolver's answers, taken from a running debugger one request at a time
    let mut d = Dap { c: Client::start() };
    d.req("initialize", json!({"adapterID": "bs", "linesStartAt1": true}));
    let l = d.req("launch", json!({"program": w.bin.to_string_lossy()}));
    if l.as_ref().map(|r| r["success"] != true).unwrap_or(true) {
        let _ = d.finish();
        return Err(format!("probe: launch failed: {l:?}"));
    }
    let first_line = DEBUGGEE.lines().position(|l| l.contains("let pad =")).unwrap() as u64 + 1;
    d.req("setBreakpoints", json!({"source": {"path": w.src}, "breakpoints": [{"line": first_line}]}));
    let r = d.run("configurationDone", json!({}));
    if r.stopped.is_none() {
        return Err("probe: did not stop in main".into());
    }
    let mut known: HashSet<u64> = snapshot_of(&d.state()).iter().map(|e| e.0).collect();
    let mut fresh = |d: &mut Dap, known: &mut HashSet<u64>| -> Vec<u64> {
        let mut v: Vec<(u64, u64, u64)> = snapshot_of(&d.state()).into_iter().filter(|e| !known.contains(&e.0)).collect();
        v.sort();
        for e in &v {
            known.insert(e.0);
        }
        v.iter().map(|e| if e.1 == 0 { e.2 - bias } else { e.2 }).collect()
    };
    let mut line_list: Vec<u64> = SRC_LINES.iter().map(|t| marker_line(t)).collect();
    line_list.push(9999);
    for line in line_list {
        d.req("setBreakpoints", json!({"source": {"path": w.src}, "breakpoints": [{"line": line}]}));
        let g = fresh(&mut d, &mut known);
        w.lines.insert(line, g);
    }
    d.req("setBreakpoints", json!({"source": {"path": w.src}, "breakpoints": []}));
    for f in w.fn_names.clone() {
        d.req("setFunctionBreakpoints", json!({"breakpoints": [{"name": f}]}));
        let g = fresh(&mut d, &mut known);
        w.fns.push(g);
    }
    d.req("setFunctionBreakpoints", json!({"breakpoints": []}));
    // instruction candidates: the @TICK address (shared with the line / function breakpoint), the
    // instruction after it, the instruction after the @LOOP2 address, an unmapped address
    let next_pc = |w: &World, a: u64| w.trace.iter().position(|p| *p == a).and_then(|i| w.trace.get(i + 1).copied());
    let tick_a = w.lines[&marker_line("TICK")].first().map(|g| g + bias).ok_or("no @TICK place")?;
    let loop2_a = w.lines[&marker_line("LOOP2")].first().map(|g| g + bias).ok_or("no @LOOP2 place")?;
    let mut cands = vec![tick_a];
    if let Some(a) = next_pc(&w, tick_a) { cands.push(a); }
    if let Some(a) = next_pc(&w, loop2_a) { cands.push(a); }
    cands.push(0x10);
    for a in &cands {
        let r = d.req("setInstructionBreakpoints", json!({"breakpoints": [{"instructionReference": format!("0x{a:x}")}]}));
        let ok = r.map(|r| r["body"]["breakpoints"][0]["verified"] == true).unwrap_or(false);
        let g = fresh(&mut d, &mut known);
        if ok != (g.len() == 1) {
            return Err(format!("probe: instruction breakpoint 0x{a:x}: verified {ok} but {} new registry entries", g.len()));
        }
        if ok {
            w.ins_valid.push(*a);
        }
    }
    w.ins_cands = cands;
    // can a log message read the clock cell?
    d.req("setInstructionBreakpoints", json!({"breakpoints": []}));
    let r = d.req("evaluate", json!({"expression": "CLOCK", "context": "watch"}));
    w.clock_expr_ok = r.map(|r| r["success"] == true && r["body"]["result"].as_str().map(|s| s.trim() == "0").unwrap_or(false)).unwrap_or(false);
    let (fin, nopanic) = d.finish();
    if !fin || !nopanic {
        return Err("probe: session did not end cleanly".into());
    }
    // sanity: every resolved address occurs in the reference trace (so arrivals are observable)
    for (l, g) in &w.lines {
        for a in g {
            if !w.trace.contains(&(a + bias)) {
                return Err(format!("line {l}: address 0x{a:x} never executed in the reference trace"));
            }
        }
    }
    Ok(w)
}

/// which condition group an address belongs to, and the truth of the group's condition at a clock
fn group_of(w: &World, a: u64) -> &'static str {
    for g in ["tick", "main", "gen0", "gen1", "clk"] {
        let (lo, hi) = w.ranges[g];
        if a >= lo && a < hi {
            return match g { "tick" => "tick", "main" => "main", _ => "other" };
        }
    }
    "other"
}
/// Some(b) = the condition evaluates to b; None = evaluation error
fn cond_truth(cond: &str, clock: u64) -> Option<bool> {
    match cond.trim() {
        "true" | "1" => Some(true),
        "false" | "0" => Some(false),
        // tick's argument / main's loop counter: 0 in the first round (clock 1), non-zero afterwards
        "n" | "i" => Some(clock >= 2),
        "((" => None,
        _ => Some(true),
    }
}

#[derive(Clone)]
struct Owner {
    kind: u8, // 0 source, 1 function, 2 instruction
    item: usize, // position of the requested breakpoint in its request: hit counts are per requested breakpoint
    opts: Opts,
}

struct Gen<'a> {
    w: &'a World,
    conds: HashMap<&'static str, String>,
    tag: u32,
}
impl Gen<'_> {
    fn opts(&mut self, rng: &mut Rng, group: &'static str, allow_err: bool) -> Opts {
        let mut o = Opts::default();
        if rng.chance(1, 2) {
            return o;
        }
        let c = self.conds[group].clone();
        let is_err = c == "((";
        if rng.chance(2, 5) && (!is_err || allow_err) {
            o.cond = Some(c.clone());
            if is_err {
                return o; // an erroring condition is only sent alone (see NOTES: spec undecided for combinations)
            }
        } else if rng.chance(1, 10) {
            o.cond = Some("  ".into());
        }
        if rng.chance(2, 5) {
            o.hit = Some((*rng.pick(&["2", ">=3", "<2", "> 1", "%2", " ", "0", "<=1", "==4", " >= 2 ", "=1", "3", "18446744073709551616"])).to_string());
        }
        if rng.chance(2, 5) {
            self.tag += 1;
            o.log = Some(if self.w.clock_expr_ok { format!("LP{}@{{CLOCK}}", self.tag) } else { format!("LP{}@", self.tag) });
        }
        o
    }
    fn set_request(&mut self, rng: &mut Rng) -> Req {
        let w = self.w;
        match rng.below(100) {
            0..=54 => {
                let k = *rng.pick(&[0usize, 1, 1, 1, 2, 2, 3]);
                let mut v = vec![];
                for _ in 0..k {
                    let t = *rng.pick(&["TICK", "TICK", "TICK2", "GEN", "GEN", "GEN2", "LOOP", "LOOP", "BLANK", "LOOP2", "AFTER", "NONE"]);
                    let line = if t == "NONE" { 9999 } else { marker_line(t) };
                    let group = match t { "TICK" | "TICK2" => "tick", "LOOP" | "BLANK" | "LOOP2" | "AFTER" => "main", _ => "other" };
                    let o = self.opts(rng, group, true);
                    v.push((line, o));
                }
                Req::SetSource(v)
            }
            55..=74 => {
                let k = *rng.pick(&[0usize, 1, 1, 2]);
                let mut v = vec![];
                for _ in 0..k {
                    let f = *rng.pick(&[Some(0usize), Some(0), Some(1), Some(1), Some(2), None]);
                    let group = match f { Some(0) => "tick", _ => "other" };
                    let o = self.opts(rng, group, true);
                    v.push((f, o));
                }
                Req::SetFunction(v)
            }
            75..=91 => {
                let k = *rng.pick(&[0usize, 1, 1, 2]);
                let mut v = vec![];
                for _ in 0..k {
                    let a = if rng.chance(1, 10) { None } else { Some(*rng.pick(&w.ins_cands)) };
                    let group = a.map(|a| group_of(w, a)).unwrap_or("other");
                    let o = self.opts(rng, group, true);
                    v.push((a, o));
                }
                Req::SetInstruction(v)
            }
            _ => {
                let k = *rng.pick(&[0usize, 1, 1, 2]);
                Req::SetData((0..k).map(|j| if rng.chance(1, 5) { None } else { Some(w.pad_addr + 8 * ((j as u64 + rng.below(2)) % 4)) }).collect())
            }
        }
    }
}

/// the specification's state at the observable level: latest sets + hit counters per (kind, address)
#[derive(Default)]
struct Spec {
    src: Vec<(u64, Opts)>,
    fun: Vec<(Option<usize>, Opts)>,
    ins: Vec<(Option<u64>, Opts)>,
    hits: HashMap<(u8, usize), u64>,
}
impl Spec {
    fn owners(&self, w: &World) -> Vec<(u64, Owner)> {
        let mut v = vec![];
        for (item, (l, o)) in self.src.iter().enumerate() {
            for g in w.lines.get(l).cloned().unwrap_or_default() {
                v.push((g + w.bias, Owner { kind: 0, item, opts: o.clone() }));
            }
        }
        for (item, (f, o)) in self.fun.iter().enumerate() {
            if let Some(f) = f {
                for g in &w.fns[*f] {
                    v.push((g + w.bias, Owner { kind: 1, item, opts: o.clone() }));
                }
            }
        }
        for (item, (a, o)) in self.ins.iter().enumerate() {
            if let Some(a) = a {
                if w.ins_valid.contains(a) {
                    v.push((*a, Owner { kind: 2, item, opts: o.clone() }));
                }
            }
        }
        v
    }
    fn locs(&self, w: &World) -> BTreeSet<u64> {
        self.owners(w).iter().map(|e| e.0).collect()
    }
    fn apply(&mut self, r: &Req) {
        match r {
            Req::SetSource(b) => { self.src = b.clone(); self.hits.retain(|k, _| k.0 != 0); }
            Req::SetFunction(b) => { self.fun = b.clone(); self.hits.retain(|k, _| k.0 != 1); }
            Req::SetInstruction(b) => { self.ins = b.clone(); self.hits.retain(|k, _| k.0 != 2); }
            _ => {}
        }
    }
    fn expected_verified(&self, w: &World, r: &Req) -> Option<Vec<bool>> {
        match r {
            Req::SetSource(b) => Some(b.iter().map(|(l, _)| w.lines.get(l).map(|g| !g.is_empty()).unwrap_or(false)).collect()),
            Req::SetFunction(b) => Some(b.iter().map(|(f, _)| f.map(|f| !w.fns[f].is_empty()).unwrap_or(false)).collect()),
            Req::SetInstruction(b) => Some(b.iter().map(|(a, _)| a.map(|a| w.ins_valid.contains(&a)).unwrap_or(false)).collect()),
            _ => None,
        }
    }
}

/// hitCondition semantics decided independently of the adapter and of the Coq model (plain arithmetic
/// on the documented syntax); None = not of the syntax -> always passes
fn hit_passes(h: &Option<String>, nth: u64) -> bool {
    let Some(h) = h else { return true };
    let t = h.trim_matches(|c: char| c == ' ' || ('\t'..='\r').contains(&c));
    if t.is_empty() {
        return true;
    }
    let (op, rest) = if let Some(r) = t.strip_prefix(">=") { (">=", r) } else if let Some(r) = t.strip_prefix("<=") { ("<=", r) } else if let Some(r) = t.strip_prefix("==") { ("=", r) } else if let Some(r) = t.strip_prefix('=') { ("=", r) } else if let Some(r) = t.strip_prefix('>') { (">", r) } else if let Some(r) = t.strip_prefix('<') { ("<", r) } else { ("=", t) };
    let rest = rest.trim_matches(|c: char| c == ' ' || ('\t'..='\r').contains(&c));
    let digits = rest.strip_prefix('+').unwrap_or(rest);
    if digits.is_empty() || !digits.bytes().all(|b| b.is_ascii_digit()) {
        return true;
    }
    let Ok(v) = digits.parse::<u128>() else { return true };
    if v > u64::MAX as u128 {
        return true;
    }
    let n = nth as u128;
    match op { ">=" => n >= v, "<=" => n <= v, ">" => n > v, "<" => n < v, _ => n == v }
}
fn spec_stop(o: &Opts, nth: u64, cv: Option<bool>) -> (bool, bool) {
    // (stops, a log output is due)
    let cond_ok = if o.has_cond() { cv != Some(false) } else { true };
    let pass = cond_ok && hit_passes(&o.hit, nth);
    (pass && !o.has_log(), pass && o.has_log())
}

struct Divergence {
    step: usize,
    kind: &'static str,
    cause: &'static str,
    detail: String,
}

pub fn run_e2e(args: &[String]) -> i32 {
    let seed: u64 = args.first().and_then(|s| s.parse().ok()).unwrap_or(1);
    let count: usize = args.get(1).and_then(|s| s.parse().ok()).unwrap_or(10);
    let out_dir = args.get(2).cloned().unwrap_or_else(|| "../coq/cases".into());
    let scratch = args.get(3).cloned().unwrap_or_else(|| "/verif/.scratch/c13".into());
    let verbose = args.get(4).map(|s| s == "-v").unwrap_or(false);
    let mut rng = Rng::new(seed ^ 0xC13_E2E);
    let w = match prepare(&scratch) {
        Ok(w) => w,
        Err(e) => {
            eprintln!("prepare failed: {e}");
            println!("{}", json!({"leg": "c13-e2e", "seed": seed, "cases": 0, "distinct_nontrivial": 0, "histogram": {}, "samples": [], "files": [], "errors": [format!("prepare: {e}")]}));
            return 0;
        }
    };
    let bias = w.bias;
    let mut cases = CasesFile::new(&["Model.DapBp"], "hist_case * bool", "c13_check");
    cases.prelude = "(* the harness's own observable-level verdict travels with the case: false = the real stops / `verified` /\n   outputs differ from what the latest sets and the reference trace demand *)\nDefinition c13_check (c : hist_case * bool) : N := N.max (hist_check (fst c)) (if snd c then 0 else 2).".into();
    let mut hist: BTreeMap<String, u64> = BTreeMap::new();
    let mut seen = HashSet::new();
    let mut nontrivial = 0usize;
    let mut samples = vec![];
    let mut errors: Vec<String> = vec![];
    let mut metas: Vec<Value> = vec![];
    let mut interp_literal = 0u64;

    let tables = format!(
        "{} {} {} {} {}",
        cf::list(&w.lines.iter().collect::<Vec<_>>(), |(l, g)| format!("((1, {}), {})", cf::n(**l as u128), cf::list(g, |a| cf::n(*a as u128)))),
        cf::list(&w.fns.iter().enumerate().collect::<Vec<_>>(), |(i, g)| format!("({}, {})", cf::n(*i as u128), cf::list(g, |a| cf::n(*a as u128)))),
        cf::list(&w.ins_valid, |a| cf::n(*a as u128)),
        cf::list(&(0..4).map(|j| w.pad_addr + 8 * j).collect::<Vec<_>>(), |a| cf::n(*a as u128)),
        cf::n(bias as u128),
    );

    for h in 0..count {
        let mut g = Gen { w: &w, conds: HashMap::new(), tag: 0 };
        g.conds.insert("tick", (*rng.pick(&["n", "n", "true", "false", "0", "(("])).to_string());
        g.conds.insert("main", (*rng.pick(&["i", "i", "1", "false", "(("])).to_string());
        g.conds.insert("other", (*rng.pick(&["true", "false", "1", "0", "(("])).to_string());
        let mut d = Dap { c: Client::start() };
        d.req("initialize", json!({"adapterID": "bs", "linesStartAt1": true}));
        let l = d.req("launch", json!({"program": w.bin.to_string_lossy()}));
        if l.map(|r| r["success"] != true).unwrap_or(true) {
            errors.push(format!("history {h}: launch failed"));
            let _ = d.finish();
            continue;
        }
        let st0 = d.state();
        // number the next created breakpoint will get: probe by nothing -- GLOBAL_BP_COUNTER is process wide; read it
        // from the first created breakpoint instead (num0 is patched after the first creation)
        let _ = st0;
        let mut steps: Vec<String> = vec![];
        let mut readable: Vec<String> = vec![];
        let mut spec = Spec::default();
        let mut div: Option<Divergence> = None;
        let mut phase = "unload"; // unload | running | exited
        let mut pos: isize = -1;
        let mut num0: Option<u64> = None;
        let mut max_num_seen: u64 = 0;
        // creation info per registry number: (phase at creation, first location of its request item?, kind)
        let mut created: HashMap<u64, (&'static str, bool, u8)> = HashMap::new();
        let mut last_snap: Vec<(u64, u64, u64)> = vec![];
        let mut kinds_used: HashSet<&'static str> = HashSet::new();
        let mut n_hits = 0usize;
        let mut n_runs = 0usize;
        let mut sets_before = 0usize;
        let mut sets_after = 0usize;
        let mut restarts = 0usize;
        let mut ambiguous = false;

        // the request script
        let n_pre = *rng.pick(&[0usize, 1, 1, 2, 2, 3]);
        let mut script: Vec<Req> = (0..n_pre).map(|_| g.set_request(&mut rng)).collect();
        script.push(Req::Start);
        let mut budget = rng.range(4, 12);
        let mut step_no = 0usize;
        let mut queue: std::collections::VecDeque<Req> = script.into();
        let mut after_exit_sets = if rng.chance(1, 3) { rng.range(1, 2) } else { 0 };
        let mut after_exit_restart = rng.chance(1, 2);
        loop {
            let r = match queue.pop_front() {
                Some(r) => r,
                None => {
                    if phase == "running" && budget > 0 {
                        budget -= 1;
                        match rng.below(100) {
                            0..=46 => Req::Continue,
                            47..=92 => g.set_request(&mut rng),
                            _ => if restarts < 2 { Req::Restart } else { Req::Continue },
                        }
                    } else if phase == "exited" && after_exit_sets > 0 {
                        after_exit_sets -= 1;
                        g.set_request(&mut rng)
                    } else if phase == "exited" && after_exit_restart && sets_after + sets_before > 0 {
                        after_exit_restart = false;
                        Req::Restart
                    } else {
                        break;
                    }
                }
            };
            step_no += 1;
            match &r {
                Req::SetSource(_) | Req::SetFunction(_) | Req::SetInstruction(_) | Req::SetData(_) => {
                    kinds_used.insert(match &r { Req::SetSource(_) => "source", Req::SetFunction(_) => "function", Req::SetInstruction(_) => "instruction", _ => "data" });
                    if phase == "unload" { sets_before += 1 } else { sets_after += 1 }
                    let resp = send_set(&mut d, &w, &r);
                    if resp.as_ref().map(|x| x["success"] != true).unwrap_or(true) {
                        errors.push(format!("history {h} step {step_no}: {:?} was not answered successfully", creq_term(&r)));
                        break;
                    }
                    let (rterm, ver) = rbps_term(&resp);
                    let st = d.state();
                    let snap = snapshot_of(&st);
                    // creation bookkeeping: new numbers since the last snapshot
                    let mut newn: Vec<(u64, u64, u64)> = snap.iter().filter(|e| e.0 > max_num_seen || (num0.is_none())).cloned().collect();
                    newn.sort();
                    if num0.is_none() {
                        if let Some(f) = newn.first() {
                            // numbers consumed by this request start at the first one that survived; a request may
                            // consume numbers of entries it overwrote: count the created places instead
                            let _ = f;
                        }
                    }
                    // how many numbers did this request consume, and which one came first?
                    let consumed: u64 = match &r {
                        Req::SetSource(b) => b.iter().map(|(l, _)| w.lines.get(l).map(|g| g.len()).unwrap_or(0) as u64).sum(),
                        Req::SetFunction(b) => b.iter().map(|(f, _)| f.map(|f| w.fns[f].len()).unwrap_or(0) as u64).sum(),
                        Req::SetInstruction(b) => b.iter().map(|(a, _)| a.map(|a| if phase == "running" { w.ins_valid.contains(&a) as u64 } else { 1 }).unwrap_or(0)).sum(),
                        _ => 0,
                    };
                    if num0.is_none() && consumed > 0 {
                        if let Some(mx) = snap.iter().map(|e| e.0).max() {
                            // the highest number present is the last one created by this (first creating) request
                            num0 = Some(mx + 1 - consumed);
                        }
                    }
                    {
                        // creation info: walk the request items in creation order
                        let mut next = max_num_seen.max(num0.unwrap_or(1).saturating_sub(1)) + 1;
                        let kind = match &r { Req::SetSource(_) => 0u8, Req::SetFunction(_) => 1, _ => 2 };
                        let per_item: Vec<u64> = match &r {
                            Req::SetSource(b) => b.iter().map(|(l, _)| w.lines.get(l).map(|g| g.len()).unwrap_or(0) as u64).collect(),
                            Req::SetFunction(b) => b.iter().map(|(f, _)| f.map(|f| w.fns[f].len()).unwrap_or(0) as u64).collect(),
                            Req::SetInstruction(b) => b.iter().map(|(a, _)| a.map(|a| if phase == "running" { w.ins_valid.contains(&a) as u64 } else { 1 }).unwrap_or(0)).collect(),
                            _ => vec![],
                        };
                        for cnt in per_item {
                            for j in 0..cnt {
                                created.insert(next, (phase, j == 0, kind));
                                next += 1;
                            }
                        }
                        max_num_seen = max_num_seen.max(next - 1).max(snap.iter().map(|e| e.0).max().unwrap_or(0));
                    }
                    steps.push(format!("({}, {}, {})", creq_term(&r), rterm, snap_term(&snap)));
                    readable.push(format!("{} -> {:?} snap {:x?}", creq_term(&r), ver, snap));
                    // ---- observable-level decision
                    let prev_spec_locs = spec.locs(&w);
                    spec.apply(&r);
                    if div.is_none() {
                        if let Some(ev) = spec.expected_verified(&w, &r) {
                            let got: Vec<bool> = ver.iter().map(|v| v.0).collect();
                            if ev != got {
                                let cause = if matches!(r, Req::SetInstruction(_)) && phase != "running" { "instr-verified-not-running" } else { "unknown" };
                                div = Some(Divergence { step: step_no, kind: "verified", cause, detail: format!("expected {ev:?} got {got:?}") });
                            }
                        }
                    }
                    if div.is_none() && !matches!(r, Req::SetData(_)) {
                        let exp = spec.locs(&w);
                        let real: BTreeSet<u64> = snap.iter().map(|e| if e.1 == 0 { e.2 } else { e.2 + bias }).collect();
                        if exp != real {
                            let extra: Vec<u64> = real.difference(&exp).cloned().collect();
                            let missing: Vec<u64> = exp.difference(&real).cloned().collect();
                            let cause = if let Some(x) = extra.first() {
                                let num = snap.iter().find(|e| (if e.1 == 0 { e.2 } else { e.2 + bias }) == *x).map(|e| e.0).unwrap_or(0);
                                match created.get(&num) {
                                    Some((_, false, 0)) => "multi-location-stale",
                                    Some((p, _, _)) if *p != phase => "phase-stale",
                                    Some((_, _, 2)) if !w.ins_valid.contains(x) => "instr-invalid-installed",
                                    _ => "unknown",
                                }
                            } else {
                                // missing: was it expected before this request as well (then this request removed a shared location)?
                                let x = missing[0];
                                let owners = spec.owners(&w).iter().filter(|e| e.0 == x).count();
                                if prev_spec_locs.contains(&x) || owners >= 2 { "shared-location-lost" } else { "unknown" }
                            };
                            div = Some(Divergence { step: step_no, kind: "registry", cause, detail: format!("extra {extra:x?} missing {missing:x?}") });
                        }
                    }
                    last_snap = snap;
                }
                Req::Start | Req::Continue | Req::Restart => {
                    if matches!(r, Req::Restart) { restarts += 1; }
                    let was_exited = phase == "exited";
                    let (cmd, a) = match r { Req::Start => ("configurationDone", json!({})), Req::Restart => ("restart", json!({})), _ => ("continue", json!({"threadId": 1})) };
                    let out = d.run(cmd, a);
                    n_runs += 1;
                    if out.timeout && !was_exited {
                        errors.push(format!("history {h} step {step_no}: no stop / exit event within 30 s after {cmd}"));
                        break;
                    }
                    if !out.ok {
                        errors.push(format!("history {h} step {step_no}: {cmd} refused"));
                        break;
                    }
                    if !matches!(r, Req::Continue) { pos = -1; }
                    let st = d.state();
                    let snap = snapshot_of(&st);
                    let pid = st["pid"].as_i64().unwrap_or(0);
                    let stopped_now = if was_exited { alive(pid) && snap.iter().any(|e| e.1 == 0) } else { out.stopped.is_some() && alive(pid) };
                    // the enabled set during the run
                    let inv = |s: &[(u64, u64, u64)]| -> Vec<(u64, u64, u64)> { s.iter().map(|e| if e.1 == 1 { (e.0, 0, e.2 + bias) } else { *e }).collect() };
                    let run_snap: Vec<(u64, u64, u64)> = if stopped_now { snap.clone() } else { inv(&snap) };
                    let enabled: BTreeSet<u64> = run_snap.iter().filter(|e| e.1 == 0).map(|e| e.2).collect();
                    // where did it stop?
                    let q: Option<usize> = if stopped_now {
                        let pc = st["pc"].as_u64().unwrap_or(0);
                        let clock = read_clock(&w, pid);
                        let found = clock.and_then(|c| (0..w.trace.len()).find(|i| (*i as isize) > pos && w.trace[*i] == pc && w.clock_at[*i] == c));
                        if found.is_none() {
                            errors.push(format!("history {h} step {step_no}: stop at pc 0x{pc:x} clock {clock:?} not found in the reference trace after index {pos}"));
                            break;
                        }
                        found
                    } else {
                        None
                    };
                    if matches!(r, Req::Start | Req::Restart) {
                        steps.push(format!("({}, RRun {}, {})", creq_term(&r), cf::boolean(out.ok), snap_term(&run_snap)));
                        readable.push(format!("{} -> snap {:x?}", creq_term(&r), run_snap));
                        if div.is_none() {
                            let exp = spec.locs(&w);
                            let real: BTreeSet<u64> = run_snap.iter().map(|e| e.2).collect();
                            if exp != real {
                                div = Some(Divergence { step: step_no, kind: "registry", cause: "unknown", detail: format!("after {cmd}: expected {exp:x?} real {real:x?}") });
                            }
                        }
                    }
                    if was_exited {
                        // events are suppressed after `terminated`: the history ends with the restart's registry
                        phase = if stopped_now { "running" } else { "exited" };
                        break;
                    }
                    // ---- the arrivals of this run, reconstructed from the reference trace
                    let end = q.unwrap_or(w.trace.len().saturating_sub(1));
                    let arrivals: Vec<usize> = (0..w.trace.len()).filter(|i| (*i as isize) > pos && *i <= end && enabled.contains(&w.trace[*i])).collect();
                    // outputs: attribute by tag + clock, else in order
                    let mut outs_per: Vec<u64> = vec![0; arrivals.len()];
                    let mut unattributed = 0usize;
                    let records: Vec<Value> = st["records"].as_array().cloned().unwrap_or_default();
                    for line in &out.console {
                        let mut done = false;
                        if line.starts_with("LP") && line.trim_end().ends_with("@CLOCK") { interp_literal += 1; }
                        if let Some(rest) = line.strip_prefix("LP") {
                            // LP<tag>@<clock>
                            let clk: Option<u64> = rest.split('@').nth(1).and_then(|s| s.trim().parse().ok());
                            if let Some(c) = clk {
                                // the arrival with this clock whose owner sent this tag
                                let tag = rest.split('@').next().unwrap_or("");
                                let owners = spec.owners(&w);
                                let mut cand: Vec<usize> = (0..arrivals.len()).filter(|k| w.clock_at[arrivals[*k]] == c && owners.iter().any(|o| o.0 == w.trace[arrivals[*k]] && o.1.opts.log.as_deref().map(|l| l.starts_with(&format!("LP{tag}@"))).unwrap_or(false))).collect();
                                if cand.len() > 1 { ambiguous = true; }
                                if let Some(k) = cand.pop() { outs_per[k] += 1; done = true; }
                            } else {
                                // `{CLOCK}` was not expanded: the first arrival of the tag's owner that has no output yet
                                let tag = rest.split('@').next().unwrap_or("");
                                let owners = spec.owners(&w);
                                let cand: Vec<usize> = (0..arrivals.len()).filter(|k| owners.iter().any(|o| o.0 == w.trace[arrivals[*k]] && o.1.opts.log.as_deref().map(|l| l.starts_with(&format!("LP{tag}@"))).unwrap_or(false))).collect();
                                if cand.len() > 1 { ambiguous = true; }
                                if let Some(k) = cand.iter().find(|k| outs_per[**k] == 0).or(cand.first()) { outs_per[*k] += 1; done = true; }
                            }
                        } else if let Some(rest) = line.strip_prefix("Breakpoint ") {
                            // Breakpoint <id> hitCondition invalid / condition error: the arrivals at that record's addresses
                            let id: i64 = rest.split(' ').next().and_then(|s| s.parse().ok()).unwrap_or(-1);
                            let addrs: Vec<u64> = records.iter().filter(|r| r["id"] == id).flat_map(|r| r["addresses"].as_array().cloned().unwrap_or_default()).map(|a| if a[0] == 0 { a[1].as_u64().unwrap_or(0) } else { a[1].as_u64().unwrap_or(0) + bias }).collect();
                            // first arrival at one of these addresses that has not got this kind of line yet
                            if let Some(k) = (0..arrivals.len()).find(|k| addrs.contains(&w.trace[arrivals[*k]]) && outs_per[*k] == 0) {
                                outs_per[k] += 1;
                                done = true;
                                ambiguous = ambiguous || (0..arrivals.len()).filter(|k| addrs.contains(&w.trace[arrivals[*k]])).count() > 1;
                            } else if let Some(k) = (0..arrivals.len()).find(|k| addrs.contains(&w.trace[arrivals[*k]])) {
                                outs_per[k] += 1;
                                done = true;
                                ambiguous = true;
                            }
                        }
                        if !done { unattributed += 1; }
                    }
                    if unattributed > 0 {
                        // untagged outputs: give them to the arrivals in order
                        ambiguous = true;
                        for k in 0..arrivals.len() { if unattributed > 0 && outs_per[k] == 0 { outs_per[k] += 1; unattributed -= 1; } }
                    }
                    let cond_of = |a: u64| g.conds[group_of(&w, a)].clone();
                    for (k, idx) in arrivals.iter().enumerate() {
                        let a = w.trace[*idx];
                        let cv = cond_truth(&cond_of(a), w.clock_at[*idx]);
                        let is_stop = q == Some(*idx);
                        steps.push(format!("(CHit {} {}, RHit {} {}, {})", cf::n(a as u128), cf::option(&cv, |b| cf::boolean(*b)), cf::boolean(is_stop), cf::n(outs_per[k] as u128), snap_term(&run_snap)));
                        readable.push(format!("Hit 0x{a:x} clock {} cv {cv:?} -> stopped {is_stop} outputs {}", w.clock_at[*idx], outs_per[k]));
                        n_hits += 1;
                    }
                    if q.is_some() && arrivals.last() != q.as_ref() {
                        errors.push(format!("history {h} step {step_no}: stopped at trace index {:?}, which is not an enabled breakpoint address", q));
                    }
                    // ---- observable-level decision for this run
                    if div.is_none() {
                        let owners = spec.owners(&w);
                        // an arrival address of this run that two requested breakpoints with different options share
                        let shared_opts = arrivals.iter().any(|i| {
                            let os: Vec<&Owner> = owners.iter().filter(|o| o.0 == w.trace[*i]).map(|o| &o.1).collect();
                            os.len() >= 2 && os.iter().any(|o| o.opts != os[0].opts)
                        });
                        let mut exp_stop: Option<usize> = None;
                        let mut exp_logs: Vec<(usize, String)> = vec![];
                        let mut first_arrival = true;
                        let mut skip_at_first = false;
                        for i in 0..w.trace.len() {
                            if (i as isize) <= pos { continue; }
                            let a = w.trace[i];
                            let Some(o) = owners.iter().find(|o| o.0 == a) else { continue };
                            let cnt = spec.hits.entry((o.1.kind, o.1.item)).or_insert(0);
                            *cnt += 1;
                            let cv = cond_truth(&cond_of(a), w.clock_at[i]);
                            let (stop, log) = spec_stop(&o.1.opts, *cnt, cv);
                            if first_arrival && !stop { skip_at_first = true; }
                            first_arrival = false;
                            if log { exp_logs.push((i, o.1.opts.log.clone().unwrap_or_default())); }
                            if stop { exp_stop = Some(i); break; }
                        }
                        if exp_stop != q {
                            let line_of = |i: Option<usize>| i.map(|i| format!("0x{:x}@clock{}", w.trace[i], w.clock_at[i])).unwrap_or("exit".into());
                            // why?  the real stop is earlier than expected at an arrival whose options say "go on"
                            let cause = if matches!(r, Req::Restart) && skip_at_first && q.is_some() && q == arrivals.first().copied() { "restart-first-stop-unfiltered" } else if let Some(qi) = q {
                                let a = w.trace[qi];
                                let num = run_snap.iter().find(|e| e.2 == a).map(|e| e.0).unwrap_or(0);
                                match created.get(&num) {
                                    Some((p, _, _)) if *p != "running" && exp_stop.map(|e| e > qi).unwrap_or(true) => "options-ignored-created-not-running",
                                    Some((_, false, 0)) if exp_stop.map(|e| e > qi).unwrap_or(true) => "options-ignored-multi-location",
                                    _ => "unknown",
                                }
                            } else { "unknown" };
                            // the real stop is an arrival whose owner's condition is a bare variable name that is false now
                            let bare_false = q.map(|qi| { let a = w.trace[qi]; owners.iter().find(|o| o.0 == a).map(|o| o.1.opts.has_cond() && matches!(o.1.opts.cond.as_deref().map(str::trim), Some("n") | Some("i")) && cond_truth(&cond_of(a), w.clock_at[qi]) == Some(false)).unwrap_or(false) }).unwrap_or(false);
                            let cause = if cause == "unknown" && bare_false { "condition-bare-identifier-true" } else { cause };
                            let cause = if cause == "unknown" && shared_opts { "shared-location-options" } else { cause };
                            div = Some(Divergence { step: step_no, kind: "stop", cause, detail: format!("expected stop {} real stop {}", line_of(exp_stop), line_of(q)) });
                        } else {
                            // every due log output must be there
                            for (i, l) in &exp_logs {
                                // the property only demands that the logpoint logs: the tag must be there; what `{CLOCK}`
                                // expands to is counted separately (log_interpolation_literal)
                                let want = l.split('@').next().unwrap_or("").to_string() + "@";
                                if !out.console.iter().any(|c| c.starts_with(&want)) {
                                    div = Some(Divergence { step: step_no, kind: "output", cause: if shared_opts { "shared-location-options" } else { "unknown" }, detail: format!("log output {want:?} missing; got {:?}", out.console) });
                                    break;
                                }
                            }
                        }
                    }
                    if let Some(qi) = q {
                        pos = qi as isize;
                        phase = "running";
                    } else {
                        phase = "exited";
                        steps.push(format!("(CExit, RNone, {})", snap_term(&snap)));
                        readable.push(format!("Exit -> snap {:x?}", snap));
                        if div.is_none() {
                            let exp = spec.locs(&w);
                            let real: BTreeSet<u64> = snap.iter().map(|e| if e.1 == 0 { e.2 } else { e.2 + bias }).collect();
                            if exp != real {
                                div = Some(Divergence { step: step_no, kind: "registry", cause: "unknown", detail: format!("after exit: expected {exp:x?} real {real:x?}") });
                            }
                        }
                        if matches!(r, Req::Restart) {
                            // the adapter reported `stopped(entry)` for a program that ran to its end
                            *hist.entry("restart_ran_to_exit".into()).or_default() += 1;
                            break;
                        }
                    }
                    last_snap = snap;
                }
            }
        }
        let _ = &last_snap;
        let (finished, no_panic) = d.finish();
        if !finished {
            errors.push(format!("history {h}: session thread still running 120 s after the connection was closed"));
            // never run a second debugger in this process beside a live one
            break;
        }
        if !no_panic {
            errors.push(format!("history {h}: session thread panicked"));
        }
        let case = format!("(mk_hist_case {} {} {}, {})", tables, cf::n(num0.unwrap_or(1) as u128), cf::list(&steps, |s| s.clone()), cf::boolean(div.is_none()));
        let nt = sets_before + sets_after >= 2 && n_hits >= 1;
        if seen.insert(case.clone()) && nt {
            nontrivial += 1;
        }
        *hist.entry(format!("set_requests_before_start:{}", sets_before.min(3))).or_default() += 1;
        *hist.entry(format!("set_requests_after_start:{}", match sets_after { 0 => "0", 1..=2 => "1-2", _ => "3+" })).or_default() += 1;
        *hist.entry(format!("hits:{}", match n_hits { 0 => "0", 1..=3 => "1-3", 4..=9 => "4-9", _ => "10+" })).or_default() += 1;
        *hist.entry(format!("runs:{}", n_runs.min(6))).or_default() += 1;
        *hist.entry(format!("restarts:{}", restarts)).or_default() += 1;
        for k in &kinds_used { *hist.entry(format!("kind:{k}")).or_default() += 1; }
        *hist.entry(format!("observable_spec:{}", if div.is_none() { "met".to_string() } else { format!("violated:{}", div.as_ref().unwrap().cause) })).or_default() += 1;
        if ambiguous { *hist.entry("output_attribution_ambiguous".into()).or_default() += 1; }
        if samples.len() < 3 {
            samples.push(json!({"steps": readable.iter().take(12).collect::<Vec<_>>(), "observable_ok": div.is_none()}));
        }
        let dj = div.as_ref().map(|d| json!({"step": d.step, "kind": d.kind, "cause": d.cause, "detail": d.detail})).unwrap_or(Value::Null);
        if verbose {
            eprintln!("--- history {h}: {} steps, divergence {dj}", readable.len());
            for l in &readable { eprintln!("    {l}"); }
        }
        metas.push(json!({"steps": readable, "divergence": dj, "conds": {"tick": g.conds["tick"], "main": g.conds["main"], "other": g.conds["other"]}}));
        cases.push(case);
    }
    let files = cases.write(&out_dir, "cases_C13_e2e", 25);
    println!(
        "{}",
        json!({"leg": "c13-e2e", "seed": seed, "cases": cases.cases.len(), "distinct_nontrivial": nontrivial, "histogram": hist, "samples": samples,
            "files": files, "errors": errors, "case_meta": metas, "shard": 25, "log_interpolation_literal": interp_literal,
            "tables": {"lines": w.lines.iter().map(|(l, g)| (l.to_string(), g.clone())).collect::<BTreeMap<_, _>>(), "fns": w.fns, "ins_valid": w.ins_valid, "ins_cands": w.ins_cands, "clock_expr_ok": w.clock_expr_ok, "trace_len": w.trace.len()}})
    );
    0
}
