//! C19 e2e leg: what `var locals` / `var NAME` / `arg all` select at every breakpoint stop and in every frame of
//! generated programs (nested blocks, shadowing, loops, recursion, closures), against
//!  (i)  the DIE tree of the function read with llvm-dwarfdump (Coq: locals_case / lookup_case / params_case,
//!       loc_case for location lists),
//!  (ii) an independent static scope model of the generated source (scope_src.rs), and
//!  (iii) the values the instrumented program itself printed for every visible binding of every live activation.
use crate::coqfmt::{self as cf};
use crate::dwarfdump::{self, Cu, DLoc, DNode};
use crate::e2e::{self, Ev};
use crate::gen_prog;
use crate::rng::Rng;
use crate::scope_src::{self, Activation, Site};
use bugstalker::debugger::process::{Child, Installed};
use bugstalker::debugger::variable::dqe::{Dqe, Selector};
use bugstalker::debugger::variable::execute::QueryResult;
use bugstalker::debugger::variable::value::{SupportedScalar, Value};
use bugstalker::debugger::{Debugger, DebuggerBuilder, rust};
use std::collections::{BTreeMap, HashMap, HashSet};
use std::fmt::Write as _;
use std::io::Read;
use std::os::fd::AsRawFd;
use std::path::Path;

/// a debugger session whose debuggee output is read by the harness thread itself (non-blocking pipe, drained
/// at every stop: everything the debuggee wrote before it stopped is then known)
struct Sess {
    dbg: Debugger,
    events: e2e::Events,
    reader: os_pipe::PipeReader,
    out: String,
}

fn launch(prog: &Path) -> Result<Sess, String> {
    let (reader, writer) = os_pipe::pipe().map_err(|e| e.to_string())?;
    unsafe {
        libc::fcntl(writer.as_raw_fd(), 1031 /* F_SETPIPE_SZ */, 1 << 20);
        let fl = libc::fcntl(reader.as_raw_fd(), libc::F_GETFL);
        libc::fcntl(reader.as_raw_fd(), libc::F_SETFL, fl | libc::O_NONBLOCK);
    }
    rust::Environment::init(None);
    let template = Child::new(prog.to_string_lossy().to_string(), Vec::<String>::new(), None::<&Path>, writer.try_clone().map_err(|e| e.to_string())?, writer);
    let process: Child<Installed> = template.install().map_err(|e| format!("install: {e}"))?;
    drop(template);
    let events = e2e::Events::default();
    let dbg = DebuggerBuilder::<e2e::Hooks>::new().with_hooks(e2e::Hooks(events.clone())).build(process).map_err(|e| format!("build: {e}"))?;
    Ok(Sess { dbg, events, reader, out: String::new() })
}

impl Sess {
    fn drain(&mut self) {
        let mut buf = [0u8; 65536];
        loop {
            match self.reader.read(&mut buf) {
                Ok(0) | Err(_) => break,
                Ok(n) => self.out.push_str(&String::from_utf8_lossy(&buf[..n])),
            }
        }
    }
}

struct Names(Vec<String>);
impl Names {
    fn id(&mut self, s: &str) -> u128 {
        if let Some(i) = self.0.iter().position(|x| x == s) { return i as u128 + 1; }
        self.0.push(s.to_string());
        self.0.len() as u128
    }
}

fn kind_of(tag: &str) -> &'static str {
    match tag {
        "DW_TAG_subprogram" => "KSubprogram",
        "DW_TAG_lexical_block" => "KBlock",
        "DW_TAG_inlined_subroutine" => "KInlined",
        "DW_TAG_variable" => "KVar",
        "DW_TAG_formal_parameter" => "KParam",
        _ => "KOther",
    }
}

fn ranges_term(rs: &[(u64, u64)]) -> String {
    cf::list(rs, |(a, b)| format!("({}, {})", cf::n(*a as u128), cf::n(*b as u128)))
}

/// `Die off kind name ranges loc children` (locations are not used by the scope checkers: LocNone)
fn die_term(n: &DNode, names: &mut Names, out: &mut String) {
    let name = match &n.name { Some(s) => format!("(Some {})", cf::n(names.id(s))), None => "None".into() };
    write!(out, "(Die {} {} {} {} LocNone [", cf::n(n.off as u128), kind_of(&n.tag), name, ranges_term(&n.die_ranges())).unwrap();
    for (i, c) in n.children.iter().enumerate() {
        if i > 0 { out.push_str("; "); }
        die_term(c, names, out);
    }
    out.push_str("])");
}

fn u64_of(r: &QueryResult) -> Option<u64> {
    match r.value.as_ref()? {
        Value::Scalar(sv) => match sv.value {
            Some(SupportedScalar::U64(v)) => Some(v),
            Some(SupportedScalar::Usize(v)) => Some(v as u64),
            _ => None,
        },
        _ => None,
    }
}

fn short_fn(name: &str) -> String {
    // "prog::work0" / "prog::generic_mix<u8>" -> "work0" / "generic_mix"
    let base = name.split('<').next().unwrap_or(name);
    base.rsplit("::").next().unwrap_or(base).to_string()
}

const REGARGS_SRC: &str = r#"use std::hint::black_box;
#[inline(never)]
fn mix(depth: u64, lo: u64, hi: u64, acc: u64) -> u64 {
    if depth == 0 {
        return black_box(lo ^ hi ^ acc);
    }
    let acc = acc.wrapping_mul(31).wrapping_add(lo);
    mix(depth - 1, lo + 1, hi + 0x100, acc) + black_box(hi)
}
fn main() {
    let r = mix(black_box(2), black_box(0x11), black_box(0x2200), black_box(0x330000));
    println!("{r}");
}
"#;

fn regargs_witness(scratch: &str, out: &mut Out, errors: &mut Vec<String>) {
    use bugstalker::debugger::variable::dqe::{Dqe, Selector};
    use bugstalker::debugger::variable::value::{SupportedScalar, Value};
    let bin = match e2e::compile(scratch, "regargs", REGARGS_SRC, &["-C", "opt-level=1"], None) {
        Ok(b) => b,
        Err(e) => {
            errors.push(format!("regargs: compile: {e}"));
            return;
        }
    };
    let mut s = match e2e::launch(&bin, &[]) {
        Ok(s) => s,
        Err(e) => {
            errors.push(format!("regargs: launch: {e}"));
            return;
        }
    };
    if let Err(e) = s.dbg.set_breakpoint_at_fn("mix") {
        errors.push(format!("regargs: break mix: {e}"));
        return;
    }
    let mut r = s.dbg.start_debugee();
    let (mut depth, mut lo, mut hi, mut acc) = (2u64, 0x11u64, 0x2200u64, 0x330000u64);
    for k in 0..3 {
        if let Err(e) = &r {
            errors.push(format!("regargs: run to activation {k}: {e}"));
            return;
        }
        for (name, want) in [("depth", depth), ("lo", lo), ("hi", hi), ("acc", acc)] {
            out.value_checks += 1;
            let got: Option<u64> = s.dbg.read_argument(Dqe::Variable(Selector::by_name(name, false))).ok().and_then(|rs| {
                rs.first().and_then(|r| match r.value() {
                    Value::Scalar(sv) => match sv.value {
                        Some(SupportedScalar::U64(v)) => Some(v),
                        Some(SupportedScalar::Usize(v)) => Some(v as u64),
                        _ => None,
                    },
                    _ => None,
                })
            });
            // a value the debugger cannot read (optimised away) is not a wrong value; a readable one must be the real one
            if let Some(g) = got {
                if g != want {
                    out.fail("reg-args", serde_json::json!({"what": format!("opt-level 1, activation {k} of mix(depth, lo, hi, acc) at its entry: `arg {name}` shows {g:#x}, the program passed {want:#x}"), "program": "regargs.rs"}));
                }
            }
            *out.hist.entry(format!("regargs:{}", if got.is_some() { "read" } else { "unreadable" })).or_default() += 1;
        }
        acc = acc.wrapping_mul(31).wrapping_add(lo);
        depth -= if depth > 0 { 1 } else { 0 };
        lo += 1;
        hi += 0x100;
        r = s.dbg.continue_debugee();
    }
}

struct Out {
    prelude: String,
    cases: Vec<String>,
    meta: Vec<serde_json::Value>,
    seen: HashSet<String>,
    hist: BTreeMap<String, u64>,
    nontrivial: usize,
    fails: Vec<serde_json::Value>,
    fail_count: BTreeMap<String, u64>,
    static_checks: u64,
    decl_checks: u64,
    value_checks: u64,
}

impl Out {
    fn case(&mut self, text: String, meta: serde_json::Value, class: &str, nontrivial: bool) {
        if !self.seen.insert(text.clone()) { return; }
        *self.hist.entry(class.to_string()).or_default() += 1;
        if nontrivial { self.nontrivial += 1; }
        self.cases.push(text);
        self.meta.push(meta);
    }
    fn fail(&mut self, key: &str, detail: serde_json::Value) {
        let c = self.fail_count.entry(key.to_string()).or_default();
        *c += 1;
        if *c <= 4 {
            let mut d = detail;
            d["key"] = serde_json::json!(key);
            self.fails.push(d);
        }
    }
}

struct ProgCtx<'a> {
    prog: String,
    opt: u32,
    cu: &'a Cu,
    sites: &'a [Site],
    funcs: &'a [String],
    tree_names: HashMap<u64, String>,
    bin: &'a Path,
}

/// everything that is checked in one frame of one stop
#[allow(clippy::too_many_arguments)]
fn check_frame(s: &Sess, px: &ProgCtx, out: &mut Out, names: &mut Names, rng: &mut Rng, frame: usize, stop_line: Option<u64>, act: Option<&Activation>, fname: &str, loc_seen: &mut HashSet<(u64, u64)>) {
    let gpc = usize::from(s.dbg.ecx().location().global_pc) as u64;
    let Some(root) = px.cu.function_at(gpc) else { return };
    let tname = px.tree_names.get(&root.off).cloned().unwrap_or_default();
    let meta = |kind: &str, extra: serde_json::Value| serde_json::json!({"kind": kind, "prog": px.prog, "opt": px.opt, "func": fname, "frame": frame, "pc": format!("{gpc:#x}"), "line": stop_line, "x": extra});
    // names present in the tree, and which of them occur in more than one live block at this pc
    let mut var_names: Vec<String> = vec![];
    let mut live_count: HashMap<String, usize> = HashMap::new();
    fn scan(n: &DNode, scope: &[(u64, u64)], pc: u64, var_names: &mut Vec<String>, live: &mut HashMap<String, usize>) {
        for c in &n.children {
            let sc: Vec<(u64, u64)> = if c.tag == "DW_TAG_lexical_block" || c.tag == "DW_TAG_subprogram" || c.tag == "DW_TAG_inlined_subroutine" { c.die_ranges() } else { scope.to_vec() };
            if c.tag == "DW_TAG_variable" {
                if let Some(nm) = &c.name {
                    if !var_names.contains(nm) { var_names.push(nm.clone()); }
                    if scope.iter().any(|(a, b)| pc >= *a && pc < *b) { *live.entry(nm.clone()).or_default() += 1; }
                }
            }
            scan(c, &sc, pc, var_names, live);
        }
    }
    scan(root, &root.die_ranges(), gpc, &mut var_names, &mut live_count);
    // (1) var locals
    match s.dbg.verif_variable_dies(&Selector::Any) {
        Ok(dies) => {
            let real: Vec<u128> = dies.iter().filter_map(|(_, n, _)| n.as_ref().map(|n| names.id(n))).collect();
            let shadow_here = live_count.values().any(|c| *c > 1);
            out.case(format!("CLocals (mk_locals_case {} {} {})", tname, cf::n(gpc as u128), cf::list(&real, |x| cf::n(*x))),
                meta("locals", serde_json::json!({"listed": dies.iter().map(|d| d.1.clone()).collect::<Vec<_>>()})),
                &format!("locals:opt{}:{}", px.opt, if frame == 0 { "frame0" } else { "frameN" }), real.len() >= 2 || shadow_here);
        }
        Err(e) => out.fail("locals-error", serde_json::json!({"prog": px.prog, "func": fname, "error": e.to_string()})),
    }
    // (2) var NAME for names of the tree: all doubly-live ones, a few others, one absent name
    let mut ask: Vec<String> = var_names.iter().filter(|n| live_count.get(*n).copied().unwrap_or(0) > 1).cloned().collect();
    let mut others: Vec<String> = var_names.iter().filter(|n| !ask.contains(n)).cloned().collect();
    while ask.len() < 5 && !others.is_empty() {
        let i = rng.below(others.len() as u64) as usize;
        ask.push(others.remove(i));
    }
    ask.push("no_such_variable".into());
    for nm in &ask {
        match s.dbg.verif_variable_dies(&Selector::by_name(nm, true)) {
            Ok(dies) => {
                let real = dies.first().map(|(_, _, r)| r.clone().unwrap_or_default());
                let lc = live_count.get(nm).copied().unwrap_or(0);
                out.case(format!("CLookup (mk_lookup_case {} {} {} {})", tname, cf::n(gpc as u128), cf::n(names.id(nm)), cf::option(&real, |r| ranges_term(r))),
                    meta("lookup", serde_json::json!({"name": nm, "live_bindings": lc, "picked_die": dies.first().map(|d| format!("{:#x}", d.0))})),
                    &format!("lookup:opt{}:live{}", px.opt, lc.min(3)), lc >= 1);
            }
            Err(e) => out.fail("lookup-error", serde_json::json!({"prog": px.prog, "func": fname, "name": nm, "error": e.to_string()})),
        }
    }
    // (3) arg all
    match s.dbg.read_argument_names(Dqe::Variable(Selector::Any)) {
        Ok(ns) => {
            let real: Vec<u128> = ns.iter().map(|n| names.id(n)).collect();
            out.case(format!("CParams (mk_params_case {} {})", tname, cf::list(&real, |x| cf::n(*x))), meta("params", serde_json::json!({"listed": ns})), &format!("params:opt{}", px.opt), !real.is_empty());
        }
        Err(e) => out.fail("params-error", serde_json::json!({"prog": px.prog, "func": fname, "error": e.to_string()})),
    }
    // (4) location lists (optimized code): which entry the debugger takes at this pc
    if px.opt > 0 {
        if let Ok(chosen) = s.dbg.verif_variable_locations(&Selector::Any) {
            for (off, nm, bytes) in chosen {
                // the variable DIE of the tree with this unit offset (the first CU starts at 0: unit offset + 0)
                let mut die: Option<&DNode> = None;
                root.walk(&mut |n, _| { if n.off == off as u64 { die = Some(n); } }, 0);
                let Some(die) = die else { continue };
                let DLoc::List(sec_off, entries) = &die.loc else { continue };
                if !loc_seen.insert((die.off, gpc)) { continue; }
                let raw = match dwarfdump::debug_loc_list(px.bin, *sec_off, px.cu.low_pc) {
                    Ok(r) => r,
                    Err(e) => { out.fail("debug-loc-parse", serde_json::json!({"prog": px.prog, "error": e})); continue; }
                };
                if raw.len() != entries.len() || raw.iter().zip(entries.iter()).any(|(r, e)| r.0 != e.0 || r.1 != e.1) {
                    out.fail("debug-loc-crosscheck", serde_json::json!({"prog": px.prog, "var": nm, "llvm": entries.iter().map(|e| (e.0, e.1)).collect::<Vec<_>>(), "own": raw.iter().map(|e| (e.0, e.1)).collect::<Vec<_>>()}));
                    continue;
                }
                // expressions numbered by their bytes
                let mut exprs: Vec<Vec<u8>> = vec![];
                let mut num = |b: &Vec<u8>| -> u128 { if let Some(i) = exprs.iter().position(|x| x == b) { i as u128 + 1 } else { exprs.push(b.clone()); exprs.len() as u128 } };
                let numbered: Vec<(u64, u64, u128)> = raw.iter().map(|(a, b, bytes)| (*a, *b, num(bytes))).collect();
                let l = cf::list(&numbered, |(a, b, d)| format!("LEntry {} {} {}", cf::n(*a as u128), cf::n(*b as u128), cf::n(*d)));
                let real = bytes.as_ref().map(|b| num(b));
                let at_end = raw.iter().any(|e| e.1 == gpc);
                out.case(format!("CLoc (mk_loc_case (LocList {}) {} {})", l, cf::n(gpc as u128), cf::option(&real, |x| cf::n(*x))),
                    meta("loc", serde_json::json!({"var": nm, "entries": entries.iter().map(|e| format!("[{:#x},{:#x}) {}", e.0, e.1, e.2)).collect::<Vec<_>>(), "pc_is_an_entry_end": at_end})),
                    &format!("loc:{}", if at_end { "pc-at-entry-end" } else { "plain" }), raw.len() >= 2);
            }
        }
    }
    // (ii) + (iii): the source-level model and the values printed by the program
    let Some(act) = act else { return };
    let Some((site_id, _)) = act.last.as_ref() else { return };
    let site = &px.sites[*site_id];
    if site.func != short_fn(fname) {
        out.fail("activation-mismatch", serde_json::json!({"prog": px.prog, "frame_fn": fname, "site_fn": site.func}));
        return;
    }
    if frame == 0 && stop_line != Some(site.new_line as u64) {
        // stopped in the middle of a statement (loop header revisited, second place of a line): the printed
        // record belongs to another statement
        *out.hist.entry("static:skipped-mid-statement".into()).or_default() += 1;
        return;
    }
    out.static_checks += 1;
    let declared: HashSet<&str> = px.sites.iter().filter(|s| s.func == site.func).flat_map(|s| s.in_scope.iter().map(|b| b.name.as_str())).collect();
    let mut listed: Vec<String> = s.dbg.read_variable_names(Dqe::Variable(Selector::Any)).unwrap_or_default().into_iter().filter(|n| declared.contains(n.as_str())).collect();
    let mut want: Vec<String> = site.in_scope.iter().filter(|b| !b.is_param).map(|b| b.name.clone()).collect();
    // a `let` declared in the function but never seen by a later statement is still "declared": add the names of
    // this function's let statements so that a leaked later declaration is noticed
    listed.sort();
    want.sort();
    let ctx = serde_json::json!({"prog": px.prog, "opt": px.opt, "func": fname, "frame": frame, "line": site.new_line, "orig_line": site.orig_line});
    if listed != want {
        let extra: Vec<&String> = listed.iter().filter(|n| listed.iter().filter(|x| x == n).count() > want.iter().filter(|x| x == n).count()).collect();
        let key = if px.opt > 0 { "static-names:opt" } else if !extra.is_empty() { "static-names:extra" } else { "static-names:missing" };
        out.fail(key, serde_json::json!({"ctx": ctx, "listed": listed, "in_scope": want}));
    }
    // `var NAME` for every name bound here: the DIE picked must be the declaration the source model calls innermost
    let mut seen_names: Vec<&str> = vec![];
    for b in site.in_scope.iter().rev() {
        if seen_names.contains(&b.name.as_str()) { continue; }
        seen_names.push(&b.name);
        if b.is_param { continue; }
        let Ok(dies) = s.dbg.verif_variable_dies(&Selector::by_name(&b.name, true)) else { continue };
        let picked_line = dies.first().and_then(|(off, _, _)| {
            let mut l = None;
            root.walk(&mut |n, _| { if n.off == *off as u64 { l = n.decl_line; } }, 0);
            l
        });
        out.decl_checks += 1;
        if picked_line != Some(b.decl_line as u64) {
            let outer: Vec<usize> = site.in_scope.iter().filter(|o| o.name == b.name && o.id != b.id).map(|o| o.decl_line).collect();
            let is_outer = picked_line.map(|p| outer.contains(&(p as usize))).unwrap_or(false);
            let key = match (is_outer, px.opt > 0) { (true, false) => "lookup:shadow-outer", (true, true) => "lookup:shadow-outer:opt", (false, false) => "lookup:wrong-declaration", (false, true) => "lookup:wrong-declaration:opt" };
            out.fail(key, serde_json::json!({"ctx": ctx, "name": b.name, "innermost_declared_at_line": b.decl_line, "outer_declarations": outer, "picked_die_declared_at_line": picked_line}));
        }
    }
    let locals = s.dbg.read_local_variables().unwrap_or_default();
    for b in &site.printed {
        let Some(expect) = act.values.get(&b.id).copied() else { continue };
        out.value_checks += 1;
        let shadowed = site.shadowed.contains(&b.name);
        if b.is_param {
            let got: Vec<Option<u64>> = s.dbg.read_argument(Dqe::Variable(Selector::by_name(&b.name, false))).map(|rs| rs.iter().map(u64_of).collect()).unwrap_or_default();
            if got != vec![Some(expect)] {
                if px.opt > 0 && opt_excuse(out, root, &b.name, gpc, true, frame, &got) { continue; }
                out.fail(if px.opt > 0 { "value:arg:opt" } else { "value:arg" }, serde_json::json!({"ctx": ctx, "name": b.name, "expected": expect, "got": got}));
            }
            continue;
        }
        let got: Vec<Option<u64>> = s.dbg.read_variable(Dqe::Variable(Selector::by_name(&b.name, true))).map(|rs| rs.iter().map(u64_of).collect()).unwrap_or_default();
        if got != vec![Some(expect)] && px.opt > 0 && opt_excuse(out, root, &b.name, gpc, false, frame, &got) {
            continue;
        }
        if got != vec![Some(expect)] {
            // is it the value of an outer binding of the same name?
            let outer: Vec<u64> = site.in_scope.iter().filter(|o| o.name == b.name && o.id != b.id).filter_map(|o| act.values.get(&o.id).copied()).collect();
            let key = if shadowed && got.len() == 1 && got[0].map(|g| outer.contains(&g)).unwrap_or(false) { if px.opt > 0 { "value:shadow-outer:opt" } else { "value:shadow-outer" } }
                else if px.opt > 0 { "value:var:opt" } else { "value:var" };
            out.fail(key, serde_json::json!({"ctx": ctx, "name": b.name, "expected_innermost": expect, "outer_values": outer, "got": got}));
        }
        if !shadowed {
            let in_list: Vec<Option<u64>> = locals.iter().filter(|r| r.identity().name.as_deref() == Some(b.name.as_str())).map(u64_of).collect();
            if in_list != vec![Some(expect)] {
                out.fail(if px.opt > 0 { "value:locals:opt" } else { "value:locals" }, serde_json::json!({"ctx": ctx, "name": b.name, "expected": expect, "got": in_list}));
            }
        } else {
            // both bindings are listed: the multiset of values must be {outer.., innermost}
            let mut in_list: Vec<Option<u64>> = locals.iter().filter(|r| r.identity().name.as_deref() == Some(b.name.as_str())).map(u64_of).collect();
            let mut wantv: Vec<Option<u64>> = site.in_scope.iter().filter(|o| o.name == b.name && !o.is_param).map(|o| act.values.get(&o.id).copied()).collect();
            in_list.sort();
            wantv.sort();
            if in_list != wantv && !wantv.contains(&None) {
                out.fail(if px.opt > 0 { "value:locals-shadow:opt" } else { "value:locals-shadow" }, serde_json::json!({"ctx": ctx, "name": b.name, "expected": wantv, "got": in_list}));
            }
        }
    }
}

/// does the DWARF of the innermost live DIE named `name` (variable or parameter) give a location at pc?
/// (Some(false) = optimized out there; None = no such DIE)
fn dwarf_available(root: &DNode, name: &str, pc: u64, param: bool) -> Option<bool> {
    let mut best: Option<(usize, &DNode)> = None;
    fn go<'a>(n: &'a DNode, scope: &[(u64, u64)], depth: usize, name: &str, pc: u64, param: bool, best: &mut Option<(usize, &'a DNode)>) {
        for c in &n.children {
            let sc: Vec<(u64, u64)> = if c.tag == "DW_TAG_lexical_block" || c.tag == "DW_TAG_inlined_subroutine" { c.die_ranges() } else { scope.to_vec() };
            let want = if param { "DW_TAG_formal_parameter" } else { "DW_TAG_variable" };
            if c.tag == want && c.name.as_deref() == Some(name) && scope.iter().any(|(a, b)| pc >= *a && pc < *b) && best.map(|b| b.0 <= depth).unwrap_or(true) {
                *best = Some((depth, c));
            }
            go(c, &sc, depth + 1, name, pc, param, best);
        }
    }
    go(root, &root.die_ranges(), 0, name, pc, param, &mut best);
    best.map(|(_, d)| match &d.loc {
        DLoc::None => false,
        DLoc::List(_, es) => es.iter().any(|(a, b, _)| pc >= *a && pc < *b),
        _ => true,
    })
}

/// optimized code: a variable the DWARF gives no location for at this pc cannot be shown - that is not a failure
/// of the debugger as long as it does not invent a value
fn opt_excuse(out: &mut Out, root: &DNode, name: &str, pc: u64, param: bool, frame: usize, got: &[Option<u64>]) -> bool {
    let shown = got.iter().any(|g| g.is_some());
    match dwarf_available(root, name, pc, param) {
        Some(false) => {
            let at_prev = frame > 0 && dwarf_available(root, name, pc.wrapping_sub(1), param) == Some(true);
            let class = match (shown, at_prev) {
                (false, false) => "value:opt:no-location-at-pc,not-shown",
                (false, true) => "value:opt:location-ends-at-return-address,not-shown",
                (true, true) => "value:opt:location-ends-at-return-address,shown",
                (true, false) => "value:opt:no-location-at-pc,but-shown",
            };
            *out.hist.entry(class.into()).or_default() += 1;
            // a value shown although the DWARF has no location at pc is what loc_case reports in Coq
            true
        }
        _ => false,
    }
}

/// functions reachable from main through calls that appear in the source text
fn live_functions(source: &str, funcs: &[String]) -> HashSet<String> {
    let mut bodies: HashMap<String, String> = HashMap::new();
    let mut cur: Option<String> = None;
    for l in source.lines() {
        let t = l.trim_start();
        if l.starts_with("fn ") {
            let end = t[3..].find(|c| c == '(' || c == '<').map(|i| i + 3).unwrap_or(t.len());
            cur = Some(t[3..end].to_string());
            continue;
        }
        if l.starts_with('}') { cur = None; }
        if let Some(c) = &cur { bodies.entry(c.clone()).or_default().push_str(l); bodies.get_mut(c).unwrap().push('\n'); }
    }
    let mut live: HashSet<String> = HashSet::from(["main".to_string()]);
    let mut work = vec!["main".to_string()];
    while let Some(f) = work.pop() {
        let body = bodies.get(&f).cloned().unwrap_or_default();
        for g in funcs {
            if !live.contains(g) && (body.contains(&format!("{g}(")) || body.contains(&format!("{g}::<"))) {
                live.insert(g.clone());
                work.push(g.clone());
            }
        }
    }
    live
}

pub fn run(args: &[String]) -> i32 {
    let seed: u64 = args.first().and_then(|s| s.parse().ok()).unwrap_or(1);
    let count: usize = args.get(1).and_then(|s| s.parse().ok()).unwrap_or(4);
    let out_dir = args.get(2).cloned().unwrap_or_else(|| "../coq/cases".into());
    let scratch = args.get(3).cloned().unwrap_or_else(|| "/verif/.scratch/c19".into());
    let max_stops: usize = args.get(4).and_then(|s| s.parse().ok()).unwrap_or(24);
    // every `opt1_every`-th program is built with -C opt-level=1 (0 = never)
    let opt1_every: usize = args.get(5).and_then(|s| s.parse().ok()).unwrap_or(0);
    let mut rng = Rng::new(seed ^ 0xC19);
    let mut out = Out { prelude: String::new(), cases: vec![], meta: vec![], seen: HashSet::new(), hist: BTreeMap::new(), nontrivial: 0, fails: vec![], fail_count: BTreeMap::new(), static_checks: 0, decl_checks: 0, value_checks: 0 };
    out.prelude.push_str("Inductive c19_case := CLocals (c : locals_case) | CLookup (c : lookup_case) | CParams (c : params_case) | CLoc (c : loc_case).\n\
        Definition c19_check (c : c19_case) : N := match c with CLocals x => locals_check x | CLookup x => lookup_check x | CParams x => params_check x | CLoc x => loc_check x end.\n");
    let mut names = Names(vec![]);
    let mut errors: Vec<String> = vec![];
    let mut samples = vec![];
    let mut total_stops = 0usize;
    let mut total_frames = 0usize;
    for prog_no in 0..count {
        // up to 4 candidate seeds per slot: the first whose program has a shadowing block in a function that is
        // reachable from main (unreachable private functions get no code), else the last candidate; every third
        // slot takes its first candidate unconditionally
        let mut chosen: Option<(u64, scope_src::Instrumented, HashSet<String>)> = None;
        for cand in 0..4u64 {
            let pseed = seed.wrapping_mul(1000).wrapping_add(prog_no as u64 * 4 + cand);
            let gp = gen_prog::generate(pseed);
            let ins = scope_src::instrument(&gp.source, &gp.lines_with_code);
            let live = live_functions(&ins.source, &ins.funcs);
            let has_shadow = ins.sites.iter().any(|x| !x.shadowed.is_empty() && live.contains(&x.func));
            if has_shadow || cand == 3 || prog_no % 3 == 2 {
                chosen = Some((pseed, ins, live));
                if has_shadow { *out.hist.entry("program:with-live-shadowing".into()).or_default() += 1; }
                break;
            }
        }
        let Some((pseed, ins, live)) = chosen else { continue };
        let opt = if opt1_every > 0 && prog_no % opt1_every == opt1_every - 1 { 1 } else { 0 };
        let name = format!("c19p{prog_no}");
        let bin = match e2e::compile(&scratch, &name, &ins.source, &["-C", "codegen-units=1", "-C", &format!("opt-level={opt}")], None) {
            Ok(b) => b,
            Err(e) => {
                errors.push(format!("compile prog {pseed}: {}", e.lines().take(12).collect::<Vec<_>>().join(" | ")));
                continue;
            }
        };
        let cu = match dwarfdump::first_cu(&bin) {
            Ok(c) => c,
            Err(e) => { errors.push(format!("dwarfdump: {e}")); continue; }
        };
        // one Coq definition per concrete subprogram of the unit
        let mut tree_names = HashMap::new();
        let mut subs: Vec<&DNode> = vec![];
        cu.root.walk(&mut |n, _| { if n.tag == "DW_TAG_subprogram" && !n.die_ranges().is_empty() { subs.push(n); } }, 0);
        for n in subs {
            if n.count() > 400 { continue; }
            let tn = format!("t{}_{:x}", prog_no, n.off);
            let mut t = String::new();
            die_term(n, &mut names, &mut t);
            writeln!(out.prelude, "Definition {tn} : die := {t}.").unwrap();
            tree_names.insert(n.off, tn);
        }
        let px = ProgCtx { prog: format!("seed {pseed} ({name}.rs)"), opt, cu: &cu, sites: &ins.sites, funcs: &ins.funcs, tree_names, bin: &bin };
        let mut s = match launch(&bin) {
            Ok(s) => s,
            Err(e) => { errors.push(e); continue; }
        };
        // breakpoint lines: every statement where a name is shadowed, the recursion, closures, and a random rest
        let mut lines: Vec<usize> = ins.sites.iter().filter(|x| !x.shadowed.is_empty() && live.contains(&x.func)).map(|x| x.new_line).collect();
        for x in ins.sites.iter().filter(|x| (x.func == "rec_sum" || x.func == "apply_closure") && live.contains(&x.func)) {
            if rng.chance(1, 2) { lines.push(x.new_line); }
        }
        let work_sites: Vec<&Site> = ins.sites.iter().filter(|x| (x.func.starts_with("work") || x.func == "generic_mix") && live.contains(&x.func)).collect();
        for _ in 0..8 {
            if !work_sites.is_empty() { lines.push(rng.pick(&work_sites).new_line); }
        }
        lines.sort();
        lines.dedup();
        let file = format!("{name}.rs");
        for l in &lines {
            match s.dbg.set_breakpoint_at_line(&file, *l as u64) {
                Ok(_) => {}
                Err(bugstalker::debugger::Error::NoSuitablePlace) => *out.hist.entry("breakpoint-lines-without-code".into()).or_default() += 1,
                Err(e) => errors.push(format!("break {file}:{l}: {e}")),
            }
        }
        *out.hist.entry(format!("program:opt{opt}")).or_default() += 1;
        *out.hist.entry("breakpoint-lines".into()).or_default() += lines.len() as u64;
        let mut res = s.dbg.start_debugee();
        let mut stops = 0usize;
        let mut loc_seen = HashSet::new();
        loop {
            if let Err(e) = &res { errors.push(format!("{}: run: {e}", px.prog)); break; }
            let evs = s.events.take();
            if evs.iter().any(|e| matches!(e, Ev::Exit(_))) { break; }
            let Some(Ev::Breakpoint { line, .. }) = evs.iter().rev().find(|e| matches!(e, Ev::Breakpoint { .. })).cloned() else {
                errors.push(format!("{}: unexpected stop {evs:?}", px.prog));
                break;
            };
            stops += 1;
            s.drain();
            let acts = scope_src::replay(&s.out, &ins.sites);
            let pid = s.dbg.ecx().pid_on_focus();
            let bt = match s.dbg.backtrace(pid) {
                Ok(b) => b,
                Err(e) => { errors.push(format!("backtrace: {e}")); break; }
            };
            // frames of instrumented functions <-> live activations (closure bodies have no activation record)
            let mut ai = acts.len();
            let mut reordered = false;
            let mut frame_acts: Vec<(usize, String, Option<Activation>)> = vec![];
            for (k, f) in bt.iter().enumerate() {
                let Some(fname) = f.func_name.clone() else { continue };
                let sf = short_fn(&fname);
                if fname.contains("{closure") {
                    frame_acts.push((k, fname, None));
                } else if px.funcs.contains(&sf) {
                    if ai == 0 {
                        if !reordered { out.fail("activation-underflow", serde_json::json!({"prog": px.prog, "frame": k, "func": fname})); }
                        frame_acts.push((k, fname, None));
                        if sf == "main" { break; }
                        continue;
                    }
                    ai -= 1;
                    let a = acts[ai].clone();
                    if px.funcs[a.func] != sf {
                        if px.opt > 0 {
                            // optimized code: the stop can precede the call that prints the entry record
                            *out.hist.entry("static:skipped-opt-reordered".into()).or_default() += 1;
                            reordered = true;
                        } else {
                            out.fail("activation-mismatch", serde_json::json!({"prog": px.prog, "frame": k, "func": fname, "activation": px.funcs[a.func]}));
                        }
                        frame_acts.push((k, fname, None));
                    } else {
                        frame_acts.push((k, fname, Some(a)));
                    }
                    if sf == "main" { break; }
                }
            }
            if reordered { for f in frame_acts.iter_mut() { f.2 = None; } }
            if ai != 0 && !reordered && frame_acts.iter().any(|f| short_fn(&f.1) == "main") {
                out.fail("activation-leftover", serde_json::json!({"prog": px.prog, "live_activations": acts.len(), "unmatched": ai, "frames": bt.iter().map(|f| f.func_name.clone()).collect::<Vec<_>>()}));
            }
            for (k, fname, act) in &frame_acts {
                if *k > 0 && s.dbg.set_frame_into_focus(*k as u32).is_err() {
                    out.fail("frame-select", serde_json::json!({"prog": px.prog, "frame": k}));
                    continue;
                }
                total_frames += 1;
                check_frame(&s, &px, &mut out, &mut names, &mut rng, *k, if *k == 0 { line } else { None }, act.as_ref(), fname, &mut loc_seen);
            }
            let _ = s.dbg.set_frame_into_focus(0);
            if samples.len() < 3 && frame_acts.len() >= 2 {
                samples.push(serde_json::json!({"prog": px.prog, "stop_line": line, "frames": frame_acts.iter().map(|f| f.1.clone()).collect::<Vec<_>>()}));
            }
            if stops >= max_stops { break; }
            res = s.dbg.continue_debugee();
        }
        total_stops += stops;
        drop(s);
    }
    // ---- register-resident arguments: an opt-level 1 function with four integer parameters, stopped at its entry in three
    // activations; `arg NAME` must show what the program really passed (rdi, rsi, rdx, rcx through the DWARF register numbers)
    regargs_witness(&scratch, &mut out, &mut errors);
    // cases files (shards share the prelude with the tree definitions)
    let mut cfile = crate::coqfmt::CasesFile::new(&["Model.Scope"], "c19_case", "c19_check");
    cfile.prelude = out.prelude.clone();
    cfile.cases = out.cases.clone();
    let shard = 400;
    let files = cfile.write(&out_dir, "cases_C19_e2e", shard);
    out.hist.insert("stops".into(), total_stops as u64);
    out.hist.insert("frames".into(), total_frames as u64);
    out.hist.insert("static-scope-checks".into(), out.static_checks);
    out.hist.insert("value-checks".into(), out.value_checks);
    out.hist.insert("lookup-declaration-checks".into(), out.decl_checks);
    println!(
        "{}",
        serde_json::json!({"leg": "c19-e2e", "seed": seed, "cases": out.cases.len(), "distinct_nontrivial": out.nontrivial,
            "histogram": out.hist, "samples": samples, "files": files, "errors": errors, "behaviour_failures": out.fails,
            "failure_counts": out.fail_count, "case_meta": out.meta, "shard": shard})
    );
    0
}
