//! C16 legs.
//!  * `c16-marg`  unit: `liter_to_arg_bin_repr` / `CallArgs::new` / `prepare_registers` (through the hooks in
//!    call/mod.rs `verif_hooks`) over literal kinds x parameter types at boundary values -> `marg_case`s.
//!  * `c16-e2e`   parent: generates debuggee variants and runs every binary in a fresh worker process
//!    (`c16-e2e-worker`) because the CallCache is a process-global static keyed by function name; plus one
//!    deliberate in-process two-binaries worker (`c16-e2e-cache`) that replays the cache refutation.
//!  * `c16-e2e-worker`: real `Debugger::call` at several stop positions; before/after PTRACE_GETREGS,
//!    /proc/<pid>/mem windows, text-vs-ELF diff, /proc/<pid>/maps, PTRACE_GETFPREGS, the debuggee's own log.
use crate::coqfmt::{self as cf, CasesFile};
use crate::e2e;
use crate::reftrace;
use crate::rng::Rng;
use bugstalker::debugger::StopReason;
use bugstalker::debugger::address::RelocatedAddress;
use bugstalker::debugger::call::verif_hooks::{VerifTy, verif_call_args, verif_liter_to_arg, verif_prepare_registers};
use bugstalker::debugger::variable::dqe::{Literal, LiteralOrWildcard};
use nix::unistd::Pid;
use serde_json::json;
use std::collections::{BTreeMap, HashSet};
use std::path::Path;

// ---------------------------------------------------------------------------------------------
// printing

const ATE_ADDRESS: u8 = 0x01;
const ATE_BOOLEAN: u8 = 0x02;
const ATE_FLOAT: u8 = 0x04;
const ATE_SIGNED: u8 = 0x05;
const ATE_SIGNED_CHAR: u8 = 0x06;
const ATE_UNSIGNED: u8 = 0x07;
const ATE_UNSIGNED_CHAR: u8 = 0x08;
const ATE_UTF: u8 = 0x10;

fn coq_enc(e: u8) -> &'static str {
    match e {
        ATE_SIGNED_CHAR => "ATE_signed_char",
        ATE_UNSIGNED_CHAR => "ATE_unsigned_char",
        ATE_SIGNED => "ATE_signed",
        ATE_UNSIGNED => "ATE_unsigned",
        ATE_BOOLEAN => "ATE_boolean",
        _ => "ATE_other",
    }
}

fn coq_ty(t: &VerifTy) -> String {
    match t {
        VerifTy::Scalar { encoding, byte_size } => format!(
            "(TScalar {} {})",
            match encoding {
                Some(e) => format!("(Some {})", coq_enc(*e)),
                None => "None".into(),
            },
            cf::option(byte_size, |s| cf::n(*s as u128))
        ),
        VerifTy::Pointer => "TPointer".into(),
        VerifTy::Structure | VerifTy::CEnum => "TOther".into(),
    }
}

fn coq_lit(l: &Literal) -> String {
    match l {
        Literal::Int(v) => format!("(LInt {})", cf::z(*v as i128)),
        Literal::Address(a) => format!("(LAddr {})", cf::n(*a as u128)),
        Literal::Bool(b) => format!("(LBool {})", cf::boolean(*b)),
        Literal::Float(_) => "LFloat".into(),
        Literal::String(_) => "LString".into(),
        Literal::EnumVariant(_, _) => "LEnum".into(),
        Literal::Array(_) => "LArray".into(),
        Literal::AssocArray(_) => "LAssoc".into(),
    }
}

fn lit_kind(l: &Literal) -> &'static str {
    match l {
        Literal::Int(_) => "int",
        Literal::Address(_) => "address",
        Literal::Bool(_) => "bool",
        Literal::Float(_) => "float",
        Literal::String(_) => "string",
        Literal::EnumVariant(_, _) => "enum",
        Literal::Array(_) => "array",
        Literal::AssocArray(_) => "assoc",
    }
}

fn ty_kind(t: &VerifTy) -> String {
    match t {
        VerifTy::Scalar { encoding, byte_size } => format!(
            "scalar:{}:{}",
            encoding.map(|e| coq_enc(e).trim_start_matches("ATE_").to_string()).unwrap_or("none".into()),
            byte_size.map(|s| s.to_string()).unwrap_or("none".into())
        ),
        VerifTy::Pointer => "pointer".into(),
        VerifTy::Structure => "struct".into(),
        VerifTy::CEnum => "cenum".into(),
    }
}

fn coq_res_n(r: &Result<u64, u8>) -> String {
    match r {
        Ok(v) => format!("(Ok {})", cf::n(*v as u128)),
        Err(c) => format!("(Err {})", cf::n(*c as u128)),
    }
}

// ---------------------------------------------------------------------------------------------
// c16-marg

fn int_boundaries() -> Vec<i64> {
    let mut v: Vec<i64> = vec![0, 1, -1, 2, -2];
    for bits in [7u32, 8, 15, 16, 31, 32, 63] {
        let p = 1i128 << bits;
        for d in [-2i128, -1, 0, 1] {
            for s in [1i128, -1] {
                let x = s * p + d;
                if x >= i64::MIN as i128 && x <= i64::MAX as i128 {
                    v.push(x as i64);
                }
            }
        }
    }
    v.push(i64::MAX);
    v.push(i64::MIN);
    v.push(i64::MIN + 1);
    v.push(0x0123_4567_89AB_CDEF);
    v.push(-0x0123_4567_89AB_CDEF);
    v.sort();
    v.dedup();
    v
}

fn other_literals() -> Vec<Literal> {
    vec![
        Literal::Float(1.5),
        Literal::Float(-0.0),
        Literal::String("abc".into()),
        Literal::String(String::new()),
        Literal::EnumVariant("Some".into(), Some(Box::new(Literal::Int(1)))),
        Literal::EnumVariant("None".into(), None),
        Literal::Array(vec![LiteralOrWildcard::Literal(Literal::Int(1)), LiteralOrWildcard::Wildcard].into_boxed_slice()),
        Literal::AssocArray(Default::default()),
    ]
}

fn all_types() -> Vec<VerifTy> {
    let mut v = vec![];
    let encs: [Option<u8>; 9] = [
        Some(ATE_SIGNED_CHAR),
        Some(ATE_UNSIGNED_CHAR),
        Some(ATE_SIGNED),
        Some(ATE_UNSIGNED),
        Some(ATE_BOOLEAN),
        Some(ATE_FLOAT),
        Some(ATE_UTF),
        Some(ATE_ADDRESS),
        None,
    ];
    let sizes: [Option<u64>; 12] = [None, Some(0), Some(1), Some(2), Some(3), Some(4), Some(5), Some(6), Some(7), Some(8), Some(9), Some(16)];
    for e in encs {
        for s in sizes {
            v.push(VerifTy::Scalar { encoding: e, byte_size: s });
        }
    }
    v.push(VerifTy::Pointer);
    v.push(VerifTy::Structure);
    v.push(VerifTy::CEnum);
    v
}

fn rand_int(rng: &mut Rng) -> i64 {
    match rng.below(5) {
        0 => *rng.pick(&int_boundaries()),
        1 => rng.next() as i64,
        2 => (rng.next() as i64) >> rng.below(64),
        3 => rng.range(0, 70000) as i64 - 35000,
        _ => ((1u64 << rng.below(64)) as i64).wrapping_add(rng.range(0, 4) as i64 - 2),
    }
}

fn rand_lit(rng: &mut Rng) -> Literal {
    match rng.below(12) {
        0..=5 => Literal::Int(rand_int(rng)),
        6..=7 => Literal::Address(match rng.below(4) {
            0 => 0,
            1 => usize::MAX,
            2 => 0x7fff_ffff_f000 + rng.below(4096) as usize,
            _ => rng.next() as usize,
        }),
        8..=9 => Literal::Bool(rng.chance(1, 2)),
        _ => rng.pick(&other_literals()).clone(),
    }
}

pub fn run_marg(args: &[String]) -> i32 {
    let seed: u64 = args.first().and_then(|s| s.parse().ok()).unwrap_or(1);
    let count: usize = args.get(1).and_then(|s| s.parse().ok()).unwrap_or(3000);
    let out_dir = args.get(2).cloned().unwrap_or_else(|| "../coq/cases".into());
    let mut rng = Rng::new(seed ^ 0xC16A);
    let types = all_types();
    let ints = int_boundaries();
    let mut lits: Vec<Literal> = ints.iter().map(|v| Literal::Int(*v)).collect();
    for a in [0usize, 1, 0xfff, 0x5555_5555_4000, 0x7fff_ffff_ffff, 0x8000_0000_0000_0000, usize::MAX - 1, usize::MAX] {
        lits.push(Literal::Address(a));
    }
    lits.push(Literal::Bool(true));
    lits.push(Literal::Bool(false));
    lits.extend(other_literals());

    let mut cases = CasesFile::new(&["Model.Call"], "marg_case", "marg_check");
    let mut hist: BTreeMap<String, u64> = BTreeMap::new();
    let mut seen = HashSet::new();
    let mut nontrivial = 0usize;
    let mut samples = vec![];
    let mut errors: Vec<String> = vec![];
    let mut spec_failures: Vec<String> = vec![];

    // the boundary cross product comes first (deterministic order, subsampled by stride when count is small),
    // the remaining budget is random
    let total_cross = lits.len() * types.len();
    let single_budget = count * 4 / 5;
    let stride = (total_cross + single_budget.max(1) - 1) / single_budget.max(1);
    let offset = if stride > 1 { rng.below(stride as u64) as usize } else { 0 };
    let mut singles: Vec<(Literal, VerifTy)> = vec![];
    let mut k = 0usize;
    for l in &lits {
        for t in &types {
            if k % stride.max(1) == offset {
                singles.push((l.clone(), t.clone()));
            }
            k += 1;
        }
    }
    while singles.len() < single_budget {
        let l = rand_lit(&mut rng);
        // random cases lean to the types that accept something
        let t = if rng.chance(3, 4) {
            let good = [
                VerifTy::Scalar { encoding: Some(*rng.pick(&[ATE_SIGNED, ATE_UNSIGNED])), byte_size: Some(*rng.pick(&[1u64, 2, 4, 8])) },
                VerifTy::Scalar { encoding: Some(ATE_BOOLEAN), byte_size: Some(1) },
                VerifTy::Scalar { encoding: Some(*rng.pick(&[ATE_SIGNED_CHAR, ATE_UNSIGNED_CHAR])), byte_size: Some(1) },
                VerifTy::Pointer,
            ];
            rng.pick(&good).clone()
        } else {
            rng.pick(&types).clone()
        };
        singles.push((l, t));
    }
    for (i, (l, t)) in singles.iter().enumerate() {
        let no = rng.below(6) as usize;
        let real = verif_liter_to_arg(no, l, t);
        // the spec, decided here as well: image = literal mod 2^(8*size)
        let expect: Option<u64> = match (l, t) {
            (Literal::Int(v), VerifTy::Scalar { encoding: Some(e), byte_size }) => {
                let size = match *e {
                    ATE_SIGNED_CHAR | ATE_UNSIGNED_CHAR => Some(1u64),
                    ATE_SIGNED | ATE_UNSIGNED => byte_size.filter(|s| [1u64, 2, 4, 8].contains(s)),
                    _ => None,
                };
                size.map(|s| if s == 8 { *v as u64 } else { (*v as u64) & ((1u64 << (8 * s)) - 1) })
            }
            (Literal::Address(a), VerifTy::Pointer) => Some(*a as u64),
            (Literal::Bool(b), VerifTy::Scalar { encoding: Some(ATE_BOOLEAN), .. }) => Some(*b as u64),
            _ => None,
        };
        let ok = match (&expect, &real) {
            (Some(v), Ok(w)) => v == w,
            (None, Err(_)) => true,
            _ => false,
        };
        if !ok && spec_failures.len() < 10 {
            spec_failures.push(format!("{:?} as {:?}: expected {:?}, got {:?}", l, t, expect, real));
        }
        let case = format!("({}, {}, {})", coq_lit(l), coq_ty(t), coq_res_n(&real));
        *hist.entry(format!("lit:{}", lit_kind(l))).or_default() += 1;
        *hist.entry(format!("ty:{}", ty_kind(t).split(':').take(2).collect::<Vec<_>>().join(":"))).or_default() += 1;
        *hist.entry(format!("result:{}", match &real { Ok(_) => "ok".to_string(), Err(c) => format!("err{c}") })).or_default() += 1;
        // non-trivial: an accepted conversion, or a rejection by a scalar/pointer type (not the blanket literal-kind rejections)
        let nt = real.is_ok() || matches!(l, Literal::Int(_) | Literal::Address(_) | Literal::Bool(_));
        if seen.insert(case.clone()) && nt {
            nontrivial += 1;
        }
        if samples.len() < 3 && i % 211 == 17 {
            samples.push(json!({"literal": format!("{:?}", l), "type": ty_kind(t), "result": format!("{:?}", real)}));
        }
        cases.push(case);
    }
    let files_single = cases.write(&out_dir, "cases_C16_marg", 1000);

    // argument lists: CallArgs::new (count check, more than six, first error wins) and prepare_registers (SysV order)
    let mut lists = CasesFile::new(&["Model.Call"], "list lit * list ty * res (list N) * option (list N)", "margs_check");
    lists.prelude = MARGS_PRELUDE.to_string();
    let list_budget = count - singles.len().min(count);
    let mut list_cases = 0usize;
    for i in 0..list_budget {
        let n = match rng.below(10) {
            0 => 7 + rng.below(2) as usize,
            _ => rng.below(7) as usize,
        };
        let mut tys = vec![];
        let mut ls = vec![];
        for _ in 0..n {
            let t = if rng.chance(9, 10) {
                let good = [
                    VerifTy::Scalar { encoding: Some(*rng.pick(&[ATE_SIGNED, ATE_UNSIGNED])), byte_size: Some(*rng.pick(&[1u64, 2, 4, 8])) },
                    VerifTy::Scalar { encoding: Some(ATE_BOOLEAN), byte_size: Some(1) },
                    VerifTy::Pointer,
                ];
                rng.pick(&good).clone()
            } else {
                rng.pick(&types).clone()
            };
            // mostly the literal kind that fits
            let l = if rng.chance(9, 10) {
                match &t {
                    VerifTy::Pointer => Literal::Address(rng.next() as usize),
                    VerifTy::Scalar { encoding: Some(ATE_BOOLEAN), .. } => Literal::Bool(rng.chance(1, 2)),
                    _ => Literal::Int(rand_int(&mut rng)),
                }
            } else {
                rand_lit(&mut rng)
            };
            tys.push(t);
            ls.push(l);
        }
        // length mismatch stream
        match rng.below(12) {
            0 if !ls.is_empty() => {
                ls.pop();
            }
            1 => ls.push(Literal::Int(1)),
            2 if !tys.is_empty() => {
                tys.pop();
            }
            _ => {}
        }
        let real = verif_call_args(&ls, &tys);
        // registers after prepare_registers on a file with distinct values
        let mut regs: libc::user_regs_struct = unsafe { std::mem::zeroed() };
        regs.rdi = 0xD1;
        regs.rsi = 0x51;
        regs.rdx = 0xD2;
        regs.rcx = 0xC1;
        regs.r8 = 0x88;
        regs.r9 = 0x99;
        regs.rax = 0xAA;
        regs.rsp = 0x7000;
        let after = if ls.len() <= 6 || ls.len() != tys.len() {
            match verif_prepare_registers(&ls, &tys, regs) {
                Ok(r) => {
                    if r.rax != 0xAA || r.rsp != 0x7000 {
                        errors.push("prepare_registers changed rax/rsp".into());
                    }
                    Some(vec![r.rdi, r.rsi, r.rdx, r.rcx, r.r8, r.r9])
                }
                Err(_) => None,
            }
        } else {
            None
        };
        let real_s = match &real {
            Ok(v) => format!("(Ok {})", cf::list(v, |x| cf::n(*x as u128))),
            Err(c) => format!("(Err {})", cf::n(*c as u128)),
        };
        let case = format!(
            "({}, {}, {}, {})",
            cf::list(&ls, coq_lit),
            cf::list(&tys, coq_ty),
            real_s,
            cf::option(&after, |v| cf::list(v, |x| cf::n(*x as u128)))
        );
        *hist.entry(format!("list_len:{}", ls.len().min(8))).or_default() += 1;
        *hist.entry(format!("list_result:{}", match &real { Ok(_) => "ok".to_string(), Err(c) => format!("err{c}") })).or_default() += 1;
        if seen.insert(case.clone()) && ls.len() >= 2 {
            nontrivial += 1;
        }
        if samples.len() < 3 && i % 97 == 5 {
            samples.push(json!({"literals": format!("{:?}", ls), "types": tys.iter().map(ty_kind).collect::<Vec<_>>(), "result": format!("{:?}", real)}));
        }
        lists.push(case);
        list_cases += 1;
    }
    let mut files = files_single;
    if list_cases > 0 {
        files.extend(lists.write(&out_dir, "cases_C16_margs", 500));
    }
    println!(
        "{}",
        json!({"leg": "c16-marg", "seed": seed, "cases": singles.len() + list_cases, "distinct_nontrivial": nontrivial,
            "histogram": hist, "samples": samples, "files": files, "errors": errors,
            "single_cases": singles.len(), "list_cases": list_cases, "cross_product": total_cross, "stride": stride,
            "spec_failures": spec_failures})
    );
    0
}

/// list-level checker, defined in the cases file (uses only Model/Call.v definitions)
const MARGS_PRELUDE: &str = r#"
Definition res_list_eqb (a b : res (list N)) : bool :=
  match a, b with
  | Ok x, Ok y => list_eqb N.eqb x y
  | Err x, Err y => x =? y
  | Panic x, Panic y => x =? y
  | OutOfFuel, OutOfFuel => true
  | _, _ => false
  end.
Fixpoint spec_list (ls : list lit) (ts : list ty) : option (list N) :=
  match ls, ts with
  | [], [] => Some []
  | l :: ls', t :: ts' =>
      match arg_spec l t, spec_list ls' ts' with
      | Some v, Some r => Some (v :: r)
      | _, _ => None
      end
  | _, _ => None
  end.
Definition regs0 : regs :=
  fun r => match r with Rdi => 0xD1 | Rsi => 0x51 | Rdx => 0xD2 | Rcx => 0xC1 | R8 => 0x88 | R9 => 0x99
                   | Rax => 0xAA | Rsp => 0x7000 | _ => 0 end.
(* (literals, parameter types, what CallArgs::new returned, rdi rsi rdx rcx r8 r9 after prepare_registers) *)
Definition margs_check (c : list lit * list ty * res (list N) * option (list N)) : N :=
  let '(ls, ts, real, after) := c in
  let model_regs := match call_args_new ls ts with
                    | Ok a => match prepare_registers regs0 arg_regs a with
                              | Ok r => Some (map r arg_regs)
                              | _ => None
                              end
                    | _ => None
                    end in
  let opt_eqb (a b : option (list N)) := match a, b with
                                          | Some x, Some y => list_eqb N.eqb x y
                                          | None, None => true
                                          | _, _ => false
                                          end in
  let model_ok := res_list_eqb (call_args_new ls ts) real && opt_eqb model_regs after in
  let want := if Nat.leb (length ls) 6 then spec_list ls ts else None in
  let spec_ok := match want, real, after with
                 | Some v, Ok w, Some rs =>
                     list_eqb N.eqb v w &&
                     list_eqb N.eqb rs (v ++ skipn (length v) (map regs0 arg_regs))
                 | None, Err _, None => true
                 | _, _, _ => false
                 end in
  verdict model_ok spec_ok."#;

// ---------------------------------------------------------------------------------------------
// e2e: debuggee generation

#[derive(Clone, Copy, Debug, PartialEq)]
enum PT {
    I8,
    I16,
    I32,
    I64,
    Isize,
    U8,
    U16,
    U32,
    U64,
    Usize,
    Bool,
    PtrU8,
    PtrMutU64,
    PtrI32,
}

const ALL_PT: [PT; 14] = [PT::I8, PT::I16, PT::I32, PT::I64, PT::Isize, PT::U8, PT::U16, PT::U32, PT::U64, PT::Usize, PT::Bool, PT::PtrU8, PT::PtrMutU64, PT::PtrI32];

impl PT {
    fn rust(self) -> &'static str {
        match self {
            PT::I8 => "i8",
            PT::I16 => "i16",
            PT::I32 => "i32",
            PT::I64 => "i64",
            PT::Isize => "isize",
            PT::U8 => "u8",
            PT::U16 => "u16",
            PT::U32 => "u32",
            PT::U64 => "u64",
            PT::Usize => "usize",
            PT::Bool => "bool",
            PT::PtrU8 => "*const u8",
            PT::PtrMutU64 => "*mut u64",
            PT::PtrI32 => "*const i32",
        }
    }
    fn to_log(self, v: &str) -> String {
        match self {
            PT::I8 | PT::I16 | PT::I32 | PT::I64 | PT::Isize => format!("{v} as i64 as u64"),
            PT::U8 | PT::U16 | PT::U32 | PT::U64 | PT::Usize | PT::Bool => format!("{v} as u64"),
            _ => format!("{v} as usize as u64"),
        }
    }
    fn size(self) -> u32 {
        match self {
            PT::I8 | PT::U8 | PT::Bool => 1,
            PT::I16 | PT::U16 => 2,
            PT::I32 | PT::U32 => 4,
            _ => 8,
        }
    }
    fn signed(self) -> bool {
        matches!(self, PT::I8 | PT::I16 | PT::I32 | PT::I64 | PT::Isize)
    }
    fn is_ptr(self) -> bool {
        matches!(self, PT::PtrU8 | PT::PtrMutU64 | PT::PtrI32)
    }
    /// a value the program itself passes (source text)
    fn own_value(self, rng: &mut Rng) -> String {
        match self {
            PT::Bool => if rng.chance(1, 2) { "true".into() } else { "false".into() },
            p if p.is_ptr() => format!("{:#x}usize as {}", rng.below(1 << 40), p.rust()),
            p if p.signed() => {
                let bits = p.size() * 8;
                let v = (rng.next() as i64) >> (64 - bits);
                format!("{}{}", v, p.rust())
            }
            p => {
                let bits = p.size() * 8;
                let v = rng.next() >> (64 - bits);
                format!("{}{}", v, p.rust())
            }
        }
    }
    /// what the callee logs for a literal accepted for this type (None = the call must be refused)
    fn logged(self, l: &Literal) -> Option<u64> {
        match (self, l) {
            (PT::Bool, Literal::Bool(b)) => Some(*b as u64),
            (p, Literal::Address(a)) if p.is_ptr() => Some(*a as u64),
            (p, Literal::Int(v)) if !p.is_ptr() && p != PT::Bool => {
                let s = p.size();
                if s == 8 {
                    Some(*v as u64)
                } else {
                    let m = (*v as u64) & ((1u64 << (8 * s)) - 1);
                    if p.signed() && (m >> (8 * s - 1)) & 1 == 1 { Some(m | !((1u64 << (8 * s)) - 1)) } else { Some(m) }
                }
            }
            _ => None,
        }
    }
    fn fitting_literal(self, rng: &mut Rng) -> Literal {
        match self {
            PT::Bool => Literal::Bool(rng.chance(1, 2)),
            p if p.is_ptr() => Literal::Address(match rng.below(4) {
                0 => 0,
                1 => usize::MAX,
                _ => rng.next() as usize,
            }),
            _ => Literal::Int(rand_int(rng)),
        }
    }
}

pub struct Variant {
    pub src: String,
    pub sigs: Vec<Vec<PT>>, // c16f0 .. c16f6
    pub mid_lines: Vec<u64>,
    pub rounds: u64,
}

/// fixed functions every variant has; ids: c16fN = N, c16align = 20, c16fp = 21, c16deref = 22
const FIXED_FUNCS: &str = r#"
#[repr(C, align(16))]
pub struct A16(pub [u64; 4]);

#[inline(never)]
pub fn c16align(a: u64) {
    use std::arch::x86_64::*;
    let mut buf = A16([0; 4]);
    unsafe {
        let v = _mm_set_epi64x(a as i64, (a ^ 0x5555) as i64);
        _mm_store_si128(buf.0.as_mut_ptr() as *mut __m128i, v);
        _mm_store_si128(buf.0.as_mut_ptr().add(2) as *mut __m128i, v);
    }
    let b = std::hint::black_box(&buf);
    rec(20, &[a, b.0[0] ^ b.0[3]]);
}

#[inline(never)]
pub fn c16fp(a: u64) {
    let f = (std::hint::black_box(a) as f64).sqrt() * 3.25 + 0.125;
    let g = std::hint::black_box(f) / 7.0;
    rec(21, &[a, f.to_bits() ^ g.to_bits()]);
}

#[inline(never)]
pub fn c16deref(p: *const u64) {
    let v = unsafe { std::ptr::read_volatile(p) };
    rec(22, &[p as usize as u64, v]);
}

/// leaf: keeps `t` in the red zone (no frame) at opt-level 1
#[inline(never)]
pub fn c16leaf(x: u64, i: usize) -> u64 {
    let mut t = [x, x.wrapping_add(1), x.wrapping_mul(3), x ^ 0x55, x << 2, x.wrapping_add(7), x.wrapping_mul(5), !x];
    let j = std::hint::black_box(i) & 7;
    t[j] = t[j].wrapping_add(1);
    let a = t[(j + 3) & 7];
    let b = t[(j + 5) & 7];
    a ^ b.rotate_left(7) ^ t[7] ^ t[6].rotate_left(3)
}

/// floating point leaf: values live in xmm registers across the stop position
#[inline(never)]
pub fn c16fleaf(x: f64, y: f64) -> f64 {
    let a = x * y;
    let b = x + y;
    let c = a - b * 0.5;
    (a / (b + 1.0)) + c * a + b
}
"#;

const RUNTIME: &str = r#"
#![allow(unused)]
use std::hint::black_box;

#[repr(C)]
pub struct Log {
    pub n: u64,
    pub e: [[u64; 8]; 256],
}
#[no_mangle]
pub static mut C16_LOG: Log = Log { n: 0, e: [[0; 8]; 256] };

#[inline(never)]
pub fn rec(id: u64, args: &[u64]) {
    unsafe {
        let p = std::ptr::addr_of_mut!(C16_LOG);
        let k = (*p).n as usize;
        if k < 256 {
            (*p).e[k][0] = id;
            (*p).e[k][1] = args.len() as u64;
            for (i, a) in args.iter().enumerate().take(6) {
                (*p).e[k][2 + i] = *a;
            }
        }
        (*p).n += 1;
    }
}
"#;

pub fn gen_variant(rng: &mut Rng, swap_names: bool) -> Variant {
    let mut sigs: Vec<Vec<PT>> = vec![];
    for n in 0..=6usize {
        sigs.push((0..n).map(|_| *rng.pick(&ALL_PT)).collect());
    }
    let mut src = String::from(RUNTIME);
    src.push_str(FIXED_FUNCS);
    for (n, sig) in sigs.iter().enumerate() {
        let params: Vec<String> = sig.iter().enumerate().map(|(i, p)| format!("a{i}: {}", p.rust())).collect();
        let logs: Vec<String> = sig.iter().enumerate().map(|(i, p)| p.to_log(&format!("a{i}"))).collect();
        src.push_str(&format!(
            "#[inline(never)]\npub fn c16f{n}({}) {{\n    rec({n}, &[{}]);\n}}\n",
            params.join(", "),
            logs.join(", ")
        ));
    }
    // two functions whose names are swapped in the `swap_names` variant (cache refutation): same bodies, same layout
    let (n1, n2) = if swap_names { ("c16second", "c16first") } else { ("c16first", "c16second") };
    let (t1, t2) = if swap_names { ("i64", "i64") } else { ("u8", "i64") };
    src.push_str(&format!("#[inline(never)]\npub fn {n1}(a: {t1}) {{\n    rec(10, &[a as u64]);\n}}\n"));
    src.push_str(&format!("#[inline(never)]\npub fn {n2}(a: {t2}) {{\n    rec(11, &[a as u64]);\n}}\n"));
    // work(): calls of the program's own, with marked lines
    let rounds = 3;
    src.push_str("#[inline(never)]\nfn work(round: u64) -> u64 {\n    let mut acc = black_box(round).wrapping_mul(0x9E37_79B9_7F4A_7C15);\n");
    let mut body: Vec<String> = vec![];
    let mut order: Vec<usize> = (0..=6).collect();
    for i in (1..order.len()).rev() {
        let j = rng.below(i as u64 + 1) as usize;
        order.swap(i, j);
    }
    for n in order {
        // black_box: no interprocedural constant propagation into the callee (it must read its argument registers)
        let vals: Vec<String> = sigs[n].iter().map(|p| format!("black_box({})", p.own_value(rng))).collect();
        body.push(format!("    c16f{n}({});", vals.join(", ")));
        match rng.below(3) {
            0 => body.push(format!("    acc = acc.wrapping_add(c16leaf(acc, black_box({}usize) + round as usize)); // MID", rng.below(8))),
            1 => body.push(format!("    acc ^= c16fleaf(acc as f64 * 0.001, black_box({}.5) + round as f64).to_bits(); // MID", rng.below(50))),
            _ => body.push("    acc = acc.rotate_left(5) ^ black_box(acc >> 3); // MID".to_string()),
        }
    }
    body.push("    acc = acc.wrapping_add(c16leaf(acc ^ 0x1234, round as usize + 5));".to_string());
    body.push("    acc ^= c16fleaf(round as f64 + 0.25, black_box(3.0)).to_bits();".to_string());
    body.push("    c16first(black_box(round) as _);".to_string());
    body.push("    c16second(black_box(round) as _);".to_string());
    let base_line = src.lines().count() as u64;
    let mut mid_lines = vec![];
    for (k, l) in body.iter().enumerate() {
        if l.ends_with("// MID") {
            mid_lines.push(base_line + 1 + k as u64);
        }
        src.push_str(l);
        src.push('\n');
    }
    src.push_str("    acc\n}\n");
    src.push_str(&format!(
        r#"
fn main() {{
    let mut total: u64 = 0;
    // keep the functions that only the debugger calls
    if black_box(false) {{
        c16align(black_box(1));
        c16fp(black_box(2));
        c16deref(black_box(std::ptr::null()));
    }}
    for r in 0..{rounds}u64 {{
        total = total.wrapping_mul(31).wrapping_add(work(r));
    }}
    println!("RESULT {{}}", total);
    unsafe {{
        let p = std::ptr::addr_of!(C16_LOG);
        let n = (*p).n as usize;
        println!("LOGN {{}}", n);
        for k in 0..n.min(256) {{
            let e = (*p).e[k];
            let na = (e[1] as usize).min(6);
            let args: Vec<String> = e[2..2 + na].iter().map(|a| format!("{{:#x}}", a)).collect();
            println!("LOG {{}} {{}} {{}}", e[0], e[1], args.join(" "));
        }}
    }}
    std::process::exit((total % 7) as i32 + 10);
}}
"#
    ));
    Variant { src, sigs, mid_lines, rounds }
}

// ---------------------------------------------------------------------------------------------
// e2e: observation helpers

const PIE_BASE: u64 = 0x5555_5555_4000;

fn regs27(r: &libc::user_regs_struct) -> Vec<u64> {
    vec![
        r.rax, r.rbx, r.rcx, r.rdx, r.rdi, r.rsi, r.rbp, r.rsp, r.r8, r.r9, r.r10, r.r11, r.r12, r.r13, r.r14, r.r15, r.rip, r.eflags, r.cs,
        r.orig_rax, r.fs_base, r.gs_base, r.fs, r.gs, r.ss, r.ds, r.es,
    ]
}

fn fpregs(pid: Pid) -> Option<Vec<u8>> {
    let mut buf = vec![0u8; 512];
    let r = unsafe { libc::ptrace(libc::PTRACE_GETFPREGS, pid.as_raw(), 0usize, buf.as_mut_ptr()) };
    if r == 0 { Some(buf) } else { None }
}

/// bytes of the executable mapping(s) of `bin` that differ from the ELF file: (address, byte in memory)
fn text_diff(pid: Pid, bin: &Path, file: &[u8]) -> Vec<(u64, u8, u8)> {
    let mut out = vec![];
    let bin_s = bin.to_string_lossy();
    for m in e2e::proc_maps(pid) {
        if m.path == bin_s && m.perms.contains('x') {
            let len = (m.end - m.start) as usize;
            if let Ok(mem) = e2e::proc_mem_read(pid, m.start, len) {
                let off = m.offset as usize;
                for i in 0..len {
                    let fb = file.get(off + i).copied().unwrap_or(0);
                    if mem[i] != fb {
                        out.push((m.start + i as u64, mem[i], fb));
                    }
                }
            }
        }
    }
    out
}

fn maps_sig(pid: Pid) -> Vec<String> {
    e2e::proc_maps(pid).iter().map(|m| format!("{:x}-{:x} {} {}", m.start, m.end, m.perms, m.path)).collect()
}

struct Obs {
    regs: Vec<u64>,
    fp: Option<Vec<u8>>,
    code: Vec<u8>,
    stack: Vec<u8>,
    tdiff: Vec<(u64, u8, u8)>, // (address, byte in memory, byte in the ELF file)
    maps: Vec<String>,
    log_n: u64,
}

fn observe(pid: Pid, bin: &Path, file: &[u8], pc: u64, rsp: u64, log_addr: u64) -> Result<Obs, String> {
    let r = nix::sys::ptrace::getregs(pid).map_err(|e| format!("getregs: {e}"))?;
    let code = e2e::proc_mem_read(pid, pc, 16)?;
    let stack = e2e::proc_mem_read(pid, rsp - 128, 256)?;
    let n = e2e::proc_mem_read(pid, log_addr, 8)?;
    Ok(Obs {
        regs: regs27(&r),
        fp: fpregs(pid),
        code,
        stack,
        tdiff: text_diff(pid, bin, file),
        maps: maps_sig(pid),
        log_n: u64::from_le_bytes(n.try_into().unwrap()),
    })
}

fn read_log_entry(pid: Pid, log_addr: u64, k: u64) -> Option<[u64; 8]> {
    if k >= 256 {
        return None;
    }
    let b = e2e::proc_mem_read(pid, log_addr + 8 + 64 * k, 64).ok()?;
    let mut e = [0u64; 8];
    for i in 0..8 {
        e[i] = u64::from_le_bytes(b[8 * i..8 * i + 8].try_into().unwrap());
    }
    Some(e)
}

/// objdump of one function: (file address, text of the instruction)
fn disasm_fn(bin: &Path, addr: u64, size: u64) -> Vec<(u64, String)> {
    let out = std::process::Command::new("objdump")
        .arg("-d")
        .arg("--no-show-raw-insn")
        .arg(format!("--start-address={:#x}", addr))
        .arg(format!("--stop-address={:#x}", addr + size))
        .arg(bin)
        .output();
    let Ok(out) = out else { return vec![] };
    String::from_utf8_lossy(&out.stdout)
        .lines()
        .filter_map(|l| {
            let (a, rest) = l.split_once(":\t")?;
            let a = u64::from_str_radix(a.trim(), 16).ok()?;
            Some((a, rest.trim().to_string()))
        })
        .collect()
}

/// file address of a data symbol
fn data_symbol(bin: &Path, name: &str) -> Option<u64> {
    let out = std::process::Command::new("nm").arg("--defined-only").arg(bin).output().ok()?;
    String::from_utf8_lossy(&out.stdout).lines().find_map(|l| {
        let mut it = l.split_whitespace();
        let a = it.next()?;
        let _k = it.next()?;
        let n = it.next()?;
        if n == name { u64::from_str_radix(a, 16).ok() } else { None }
    })
}

fn sym<'a>(syms: &'a [(String, u64, u64)], name: &str) -> Option<&'a (String, u64, u64)> {
    let suffix = format!("::{name}");
    syms.iter().find(|(n, _, _)| n.ends_with(&suffix) || n == name)
}

/// the leaf keeps locals below rsp without moving rsp: returns the file address right after the last store
/// to a negative rsp offset
fn redzone_stop(ins: &[(u64, String)]) -> Result<u64, String> {
    let re_store = regex::Regex::new(r"[,\s]-0x[0-9a-f]+\(%rsp(,%[a-z0-9]+,\d)?\)$").unwrap();
    let re_any = regex::Regex::new(r"-0x[0-9a-f]+\(%rsp").unwrap();
    let mut last_store = None;
    for (i, (_, t)) in ins.iter().enumerate() {
        let m = t.split_whitespace().next().unwrap_or("");
        if m.starts_with("push") || m.starts_with("call") || (t.contains(",%rsp") && (m.starts_with("sub") || m.starts_with("add") || m.starts_with("lea") || m.starts_with("and"))) {
            return Err(format!("c16leaf adjusts rsp or calls: `{t}`"));
        }
        let reads_only = ["cmp", "test", "mul", "imul", "div", "idiv", "jmp", "nop"].iter().any(|p| m.starts_with(p));
        if re_store.is_match(t) && !reads_only {
            last_store = Some(i);
        }
    }
    if !ins.iter().any(|(_, t)| re_any.is_match(t)) {
        return Err("c16leaf has no negative rsp offsets (locals are not in the red zone)".into());
    }
    let i = last_store.ok_or("c16leaf has no store to a negative rsp offset")?;
    ins.get(i + 1).map(|(a, _)| *a).ok_or_else(|| "store is the last instruction".to_string())
}

/// address after the first two SSE arithmetic instructions of the FP leaf (values live in xmm registers)
fn fp_stop(ins: &[(u64, String)]) -> Option<u64> {
    let mut seen = 0;
    for (i, (_, t)) in ins.iter().enumerate() {
        let m = t.split_whitespace().next().unwrap_or("");
        if ["mulsd", "addsd", "subsd", "divsd", "vmulsd", "vaddsd"].contains(&m) {
            seen += 1;
            if seen == 2 {
                return ins.get(i + 1).map(|(a, _)| *a);
            }
        }
    }
    None
}

// ---------------------------------------------------------------------------------------------
// e2e worker

#[derive(Clone, Debug)]
enum Callee {
    F(usize),
    Align,
    Fp,
    Deref,
    DerefBad,
    First,
    Unknown,
}

struct CallPlan {
    name: String,
    lits: Vec<Literal>,
    /// Some(entry) = the call must succeed and log exactly this entry; None = it must be refused
    expect: Option<(u64, Vec<u64>)>,
    kind: String,
}

fn plan_call(rng: &mut Rng, v: &Variant, which: &Callee, good_ptr: u64) -> CallPlan {
    match which {
        Callee::F(n) => {
            let sig = &v.sigs[*n];
            let mut lits: Vec<Literal> = sig.iter().map(|p| p.fitting_literal(rng)).collect();
            let mut kind = format!("f{n}");
            // malformed stream: 1 in 6
            let mut refused = false;
            if rng.chance(1, 6) {
                match rng.below(5) {
                    0 => {
                        lits.push(Literal::Int(1));
                        kind = format!("f{n}:extra-arg");
                        refused = true;
                    }
                    1 if !lits.is_empty() => {
                        lits.pop();
                        kind = format!("f{n}:missing-arg");
                        refused = true;
                    }
                    2 if !lits.is_empty() => {
                        let i = rng.below(lits.len() as u64) as usize;
                        lits[i] = match rng.below(3) {
                            0 => Literal::Float(2.5),
                            1 => Literal::String("x".into()),
                            _ => Literal::EnumVariant("None".into(), None),
                        };
                        kind = format!("f{n}:unsupported-literal");
                        refused = true;
                    }
                    3 if !lits.is_empty() => {
                        let i = rng.below(lits.len() as u64) as usize;
                        // a literal of another kind than the parameter
                        lits[i] = match sig[i] {
                            PT::Bool => Literal::Int(1),
                            p if p.is_ptr() => Literal::Int(4096),
                            _ => {
                                if rng.chance(1, 2) { Literal::Bool(true) } else { Literal::Address(0x1000) }
                            }
                        };
                        kind = format!("f{n}:kind-mismatch");
                        refused = true;
                    }
                    _ => {}
                }
            }
            let expect = if refused {
                None
            } else {
                let vals: Option<Vec<u64>> = sig.iter().zip(lits.iter()).map(|(p, l)| p.logged(l)).collect();
                vals.map(|a| (*n as u64, a))
            };
            CallPlan { name: format!("c16f{n}"), lits, expect, kind }
        }
        Callee::Align => {
            let a = rng.next();
            CallPlan { name: "c16align".into(), lits: vec![Literal::Int(a as i64)], expect: Some((20, vec![a, (a ^ 0x5555) ^ a])), kind: "align".into() }
        }
        Callee::Fp => {
            let a = rng.below(1 << 40);
            let f = (a as f64).sqrt() * 3.25 + 0.125;
            let g = f / 7.0;
            CallPlan { name: "c16fp".into(), lits: vec![Literal::Int(a as i64)], expect: Some((21, vec![a, f.to_bits() ^ g.to_bits()])), kind: "fp".into() }
        }
        Callee::DerefBad => CallPlan {
            name: "c16deref".into(),
            lits: vec![Literal::Address(8 + 8 * rng.below(100) as usize)],
            expect: None, // the callee faults: the call cannot complete and must be reported as an error
            kind: "deref-bad".into(),
        },
        Callee::Deref => CallPlan {
            name: "c16deref".into(),
            lits: vec![Literal::Address(good_ptr as usize)],
            expect: Some((22, vec![good_ptr, 0])), // second word filled in by the caller (value at good_ptr)
            kind: "deref".into(),
        },
        Callee::First => {
            let a = rng.below(200) as u64;
            CallPlan { name: "c16first".into(), lits: vec![Literal::Int(a as i64)], expect: Some((10, vec![a])), kind: "first".into() }
        }
        Callee::Unknown => CallPlan { name: "c16_no_such_function".into(), lits: vec![Literal::Int(1)], expect: None, kind: "unknown-function".into() },
    }
}

struct CaseOut {
    coq: String,
    meta: serde_json::Value,
    failure: Vec<(String, String)>,
}

fn fmt_window(base: u64, b1: &[u8], b2: &[u8]) -> String {
    format!("({}, {}, {})", cf::n(base as u128), cf::bytes(b1), cf::bytes(b2))
}

/// one injected call with full observation
fn do_call(s: &mut e2e::Session, bin: &Path, file: &[u8], log_addr: u64, plan: &CallPlan, pos: &str) -> Result<CaseOut, String> {
    let pid = s.pid_now();
    let r0 = nix::sys::ptrace::getregs(pid).map_err(|e| format!("getregs: {e}"))?;
    let (pc, rsp) = (r0.rip, r0.rsp);
    let before = observe(pid, bin, file, pc, rsp, log_addr)?;
    let res = s.dbg.call(&plan.name, &plan.lits);
    let pid2 = s.pid_now();
    if pid2 != pid {
        return Err("pid changed across a call".into());
    }
    let after = observe(pid, bin, file, pc, rsp, log_addr)?;

    // windows: code at pc, the stack around rsp, every text byte that differs from the ELF file before or after
    let mut windows = vec![fmt_window(pc, &before.code, &after.code), fmt_window(rsp - 128, &before.stack, &after.stack)];
    let mut addrs: Vec<(u64, u8)> = before.tdiff.iter().chain(after.tdiff.iter()).map(|(a, _, f)| (*a, *f)).collect();
    addrs.sort();
    addrs.dedup();
    // the byte in memory at `a`: the differing one, else the file's
    let lookup = |d: &[(u64, u8, u8)], a: u64, fb: u8| -> u8 { d.iter().find(|(x, _, _)| *x == a).map(|(_, b, _)| *b).unwrap_or(fb) };
    let mut text_changed = vec![];
    for (a, fb) in &addrs {
        let (b1, b2) = (lookup(&before.tdiff, *a, *fb), lookup(&after.tdiff, *a, *fb));
        if b1 != b2 {
            text_changed.push(*a);
        }
        windows.push(fmt_window(*a, &[b1], &[b2]));
    }
    let coq = format!(
        "{{| cc_regs_before := {}; cc_regs_after := {}; cc_rsp := {}; cc_windows := {} |}}",
        cf::list(&before.regs, |x| cf::n(*x as u128)),
        cf::list(&after.regs, |x| cf::n(*x as u128)),
        cf::n(rsp as u128),
        cf::list(&windows, |w| w.clone())
    );

    // the spec decided in the harness
    let mut fails: Vec<(&str, String)> = vec![];
    let names = ["rax", "rbx", "rcx", "rdx", "rdi", "rsi", "rbp", "rsp", "r8", "r9", "r10", "r11", "r12", "r13", "r14", "r15", "rip", "eflags", "cs", "orig_rax", "fs_base", "gs_base", "fs", "gs", "ss", "ds", "es"];
    let reg_diff: Vec<&str> = (0..27).filter(|i| before.regs[*i] != after.regs[*i]).map(|i| names[i]).collect();
    if !reg_diff.is_empty() {
        fails.push(("c16-e2e:registers", format!("registers changed: {}", reg_diff.join(","))));
    }
    if before.code != after.code {
        fails.push(("c16-e2e:text", "code bytes at pc changed".into()));
    }
    let stack_diff: Vec<i64> = (0..256).filter(|i| before.stack[*i] != after.stack[*i]).map(|i| i as i64 - 128).collect();
    let red = stack_diff.iter().filter(|o| **o < 0).count();
    let above = stack_diff.iter().filter(|o| **o >= 0).count();
    if red > 0 {
        fails.push(("c16-e2e:redzone", format!("{} bytes of the red zone [rsp-128, rsp) changed (lowest offset {})", red, stack_diff.iter().min().unwrap())));
    }
    if above > 0 {
        fails.push(("c16-e2e:stack", format!("{} bytes at or above rsp changed", above)));
    }
    if !text_changed.is_empty() {
        fails.push(("c16-e2e:text", format!("text mapping differs from before at {:#x}", text_changed[0])));
    }
    let maps_changed = before.maps != after.maps;
    let leaked_rwx = after.maps.iter().filter(|m| m.contains("rwx")).count() > before.maps.iter().filter(|m| m.contains("rwx")).count();
    if maps_changed {
        let new: Vec<&String> = after.maps.iter().filter(|m| !before.maps.contains(m)).collect();
        fails.push((if leaked_rwx { "c16-e2e:page-leak" } else { "c16-e2e:maps" }, format!("/proc/pid/maps changed: {:?}", new)));
    }
    let fp_changed = before.fp != after.fp;
    // log
    let mut log_state = "ok";
    match (&plan.expect, &res) {
        (Some((id, args)), Ok(())) => {
            if after.log_n != before.log_n + 1 {
                log_state = "count";
                let key = match plan.kind.as_str() {
                    "align" if rsp % 16 != 0 => "c16-e2e:align",
                    "deref-bad" => "c16-e2e:signal-in-callee",
                    _ => "c16-e2e:ran-once",
                };
                fails.push((key, format!("the call reported success but the log has {} new entries", after.log_n as i64 - before.log_n as i64)));
            } else {
                let e = read_log_entry(pid, log_addr, before.log_n).unwrap_or([0; 8]);
                let got: Vec<u64> = e[2..2 + (e[1] as usize).min(6)].to_vec();
                if e[0] != *id || e[1] != args.len() as u64 || got != *args {
                    log_state = "args";
                    fails.push(("c16-e2e:args", format!("logged entry id={} args={:x?}, expected id={} args={:x?}", e[0], got, id, args)));
                }
            }
        }
        (Some(_), Err(e)) => {
            log_state = "refused";
            fails.push(("c16-e2e:refused", format!("a valid call was refused: {e}")));
            if after.log_n != before.log_n {
                fails.push(("c16-e2e:ran-once", "refused call left log entries".into()));
            }
        }
        (None, Ok(())) => {
            log_state = "accepted";
            fails.push((if plan.kind == "deref-bad" { "c16-e2e:signal-in-callee" } else { "c16-e2e:accepted" }, "a call that cannot be made (or did not complete) reported success".into()));
        }
        (None, Err(_)) => {
            if after.log_n != before.log_n {
                log_state = "count";
                fails.push(("c16-e2e:ran-once", "refused call left log entries".into()));
            }
        }
    }
    let meta = json!({
        "fn": plan.name, "kind": plan.kind, "pos": pos, "args": plan.lits.iter().map(|l| format!("{l}")).collect::<Vec<_>>(),
        "result": match &res { Ok(()) => "ok".to_string(), Err(e) => format!("err: {e}") },
        "rsp_mod16": rsp % 16, "reg_diff": reg_diff, "code_changed": before.code != after.code,
        "red_zone_bytes_changed": red, "above_rsp_bytes_changed": above, "text_changed": text_changed.len(),
        "maps_changed": maps_changed, "leaked_rwx": leaked_rwx, "fp_changed": fp_changed, "log": log_state,
        "keys": fails.iter().map(|f| f.0).collect::<Vec<_>>(),
    });
    let failure: Vec<(String, String)> = fails.iter().map(|(k, w)| (k.to_string(), format!("{} {:?} at {}: {}", plan.name, plan.lits.iter().map(|l| format!("{l}")).collect::<Vec<_>>(), pos, w))).collect();
    Ok(CaseOut { coq, meta, failure })
}

struct WorkerOut {
    cases: Vec<String>,
    metas: Vec<serde_json::Value>,
    call_failures: Vec<serde_json::Value>,
    fp_changes: Vec<String>,
    errors: Vec<String>,
    sessions: Vec<serde_json::Value>,
    hist: BTreeMap<String, u64>,
}

fn parse_out(out: &str) -> (Option<String>, Vec<String>) {
    let result = out.lines().find(|l| l.starts_with("RESULT ")).map(|l| l.to_string());
    let log = out.lines().filter(|l| l.starts_with("LOG ")).map(|l| l.to_string()).collect();
    (result, log)
}

fn fmt_entry(e: &[u64; 8]) -> String {
    let na = (e[1] as usize).min(6);
    let args: Vec<String> = e[2..2 + na].iter().map(|a| format!("{:#x}", a)).collect();
    format!("LOG {} {} {}", e[0], e[1], args.join(" "))
}

#[derive(Clone, Debug, PartialEq)]
enum PosKind {
    Entry,   // first instruction of a function
    Mid,     // line in the middle of work()
    Leaf,    // inside the red-zone leaf, after its stores
    FpLeaf,  // inside the floating point leaf
    MainBody,
}

/// one debugger session over `bin`: breakpoints at the chosen positions, calls at every stop
#[allow(clippy::too_many_arguments)]
fn session(
    rng: &mut Rng,
    v: &Variant,
    bin: &Path,
    file: &[u8],
    syms: &[(String, u64, u64)],
    native: &(Vec<u8>, Option<i32>),
    calls_budget: usize,
    focus: Option<&str>,
    out: &mut WorkerOut,
) -> Result<usize, String> {
    let log_addr = data_symbol(bin, "C16_LOG").ok_or("no C16_LOG symbol")? + PIE_BASE;
    let leaf = sym(syms, "c16leaf").ok_or("no c16leaf")?;
    let fleaf = sym(syms, "c16fleaf").ok_or("no c16fleaf")?;
    let leaf_ins = disasm_fn(bin, leaf.1, leaf.2);
    let leaf_stop = redzone_stop(&leaf_ins)?;
    let fp_stop_a = fp_stop(&disasm_fn(bin, fleaf.1, fleaf.2));

    let mut s = e2e::launch(bin, &[])?;
    // positions
    let mut positions: Vec<(u64, PosKind, String)> = vec![];
    let entry_fns: Vec<String> = {
        let mut names: Vec<String> = (0..=6).map(|n| format!("c16f{n}")).collect();
        names.push("work".into());
        names.push("c16leaf".into());
        names.push("c16fleaf".into());
        names
    };
    let pick_n = |rng: &mut Rng, k: usize, xs: &[String]| -> Vec<String> {
        let mut v: Vec<String> = xs.to_vec();
        for i in (1..v.len()).rev() {
            let j = rng.below(i as u64 + 1) as usize;
            v.swap(i, j);
        }
        v.truncate(k);
        v
    };
    match focus {
        Some("redzone") => positions.push((leaf_stop + PIE_BASE, PosKind::Leaf, "c16leaf+redzone".into())),
        Some("align") => {
            for f in ["c16f1", "c16f3", "work"] {
                if let Some(sy) = sym(syms, f) {
                    positions.push((sy.1 + PIE_BASE, PosKind::Entry, format!("{f}+0")));
                }
            }
        }
        Some("fp") => {
            if let Some(a) = fp_stop_a {
                positions.push((a + PIE_BASE, PosKind::FpLeaf, "c16fleaf+fp".into()));
            }
        }
        Some("signal") => {
            if let Some(sy) = sym(syms, "work") {
                positions.push((sy.1 + PIE_BASE, PosKind::Entry, "work+0".into()));
            }
            let _ = s.dbg.set_breakpoint_at_fn("work");
        }
        _ => {
            for f in pick_n(rng, 3, &entry_fns) {
                if let Some(sy) = sym(syms, &f) {
                    positions.push((sy.1 + PIE_BASE, PosKind::Entry, format!("{f}+0")));
                }
            }
            positions.push((leaf_stop + PIE_BASE, PosKind::Leaf, "c16leaf+redzone".into()));
            if let Some(a) = fp_stop_a {
                if rng.chance(1, 2) {
                    positions.push((a + PIE_BASE, PosKind::FpLeaf, "c16fleaf+fp".into()));
                }
            }
        }
    }
    for (a, _, name) in &positions {
        s.dbg.set_breakpoint_at_addr(RelocatedAddress::from(*a as usize)).map_err(|e| format!("break {name}: {e}"))?;
    }
    let mut line_pos: Vec<u64> = vec![];
    if focus.is_none() {
        let src_name = format!("{}.rs", bin.file_name().unwrap().to_string_lossy());
        let mut lines = v.mid_lines.clone();
        for i in (1..lines.len()).rev() {
            let j = rng.below(i as u64 + 1) as usize;
            lines.swap(i, j);
        }
        for l in lines.into_iter().take(3) {
            if s.dbg.set_breakpoint_at_line(&src_name, l).is_ok() {
                line_pos.push(l);
            }
        }
        if rng.chance(1, 2) {
            let _ = s.dbg.set_breakpoint_at_fn("main");
        }
    }
    let mut injected: Vec<(u64, String)> = vec![]; // (log index, expected line)
    let mut made = 0usize;
    let mut stops = 0usize;
    let mut session_keys: std::collections::BTreeSet<String> = Default::default();
    let mut session_fp = false;
    let mut r = s.dbg.start_debugee_with_reason().map_err(|e| format!("start: {e}"));
    loop {
        match &r {
            Err(e) => {
                out.errors.push(format!("run: {e}"));
                break;
            }
            Ok(StopReason::DebugeeExit(_)) | Ok(StopReason::NoSuchProcess(_)) => break,
            Ok(StopReason::Breakpoint(_, _)) => {}
            Ok(StopReason::SignalStop(_, sig)) => {
                out.errors.push(format!("unexpected signal stop {sig}"));
                break;
            }
            Ok(_) => {
                out.errors.push("unexpected stop".to_string());
                break;
            }
        }
        stops += 1;
        let pid = s.pid_now();
        let regs = nix::sys::ptrace::getregs(pid).map_err(|e| format!("getregs: {e}"))?;
        let (kind, pname) = positions
            .iter()
            .find(|(a, _, _)| *a == regs.rip)
            .map(|(_, k, n)| (k.clone(), n.clone()))
            .unwrap_or_else(|| {
                let ev = s.events.take();
                let line = ev.iter().rev().find_map(|e| if let e2e::Ev::Breakpoint { line, .. } = e { *line } else { None });
                match line {
                    Some(l) if line_pos.contains(&l) => (PosKind::Mid, format!("work:line{l}")),
                    _ => (PosKind::MainBody, "main".to_string()),
                }
            });
        if made < calls_budget {
            let k = match focus {
                Some(_) => 1,
                None => rng.range(1, 3) as usize,
            };
            for _ in 0..k {
                let which = match focus {
                    Some("redzone") => Callee::F(rng.range(0, 6) as usize),
                    Some("align") => Callee::Align,
                    Some("fp") => Callee::Fp,
                    Some("signal") => Callee::DerefBad,
                    _ => match rng.below(20) {
                        0 => Callee::Unknown,
                        1 => Callee::First,
                        2 => Callee::Fp,
                        // the aligned callee only where the ABI alignment holds at the stop (statement positions inside a frame)
                        3 if regs.rsp % 16 == 0 => Callee::Align,
                        4 => Callee::Deref,
                        _ => Callee::F(rng.range(0, 6) as usize),
                    },
                };
                let good_ptr = log_addr; // readable: the log's counter
                let mut plan = plan_call(rng, v, &which, good_ptr);
                if let Callee::Deref = which {
                    // the callee reads the counter before rec() increments it
                    let n = e2e::proc_mem_read(pid, log_addr, 8).map(|b| u64::from_le_bytes(b.try_into().unwrap())).unwrap_or(0);
                    plan.expect = Some((22, vec![good_ptr, n]));
                }
                let before_n = e2e::proc_mem_read(pid, log_addr, 8).map(|b| u64::from_le_bytes(b.try_into().unwrap())).unwrap_or(0);
                let c = do_call(&mut s, bin, file, log_addr, &plan, &pname)?;
                *out.hist.entry(format!("pos:{:?}", kind)).or_default() += 1;
                *out.hist.entry(format!("callee:{}", plan.kind.split(':').next().unwrap_or(""))).or_default() += 1;
                *out.hist.entry(format!("nargs:{}", plan.lits.len())).or_default() += 1;
                *out.hist.entry(format!("expect:{}", if plan.expect.is_some() { "run" } else { "refuse" })).or_default() += 1;
                *out.hist.entry(format!("rsp_mod16:{}", regs.rsp % 16)).or_default() += 1;
                if c.meta["fp_changed"].as_bool() == Some(true) {
                    *out.hist.entry("fp_state_changed".into()).or_default() += 1;
                    if out.fp_changes.len() < 5 {
                        out.fp_changes.push(format!("{} at {}", plan.name, pname));
                    }
                }
                // every entry that actually appeared is remembered for the final comparison
                let after_n = e2e::proc_mem_read(pid, log_addr, 8).map(|b| u64::from_le_bytes(b.try_into().unwrap())).unwrap_or(0);
                for k in before_n..after_n {
                    if let Some(e) = read_log_entry(pid, log_addr, k) {
                        injected.push((k, fmt_entry(&e)));
                    }
                }
                for (k, w) in &c.failure {
                    session_keys.insert(k.clone());
                    if out.call_failures.len() < 40 {
                        out.call_failures.push(json!({"key": k, "what": w}));
                    }
                }
                if c.meta["fp_changed"].as_bool() == Some(true) {
                    session_fp = true;
                }
                out.cases.push(c.coq);
                out.metas.push(c.meta);
                made += 1;
            }
        }
        r = s.dbg.continue_debugee_with_reason().map_err(|e| format!("continue: {e}"));
    }
    // final comparison with the native run: the output with the injected entries removed must be the native output
    let code = s.events.take().iter().rev().find_map(|e| if let e2e::Ev::Exit(c) = e { Some(*c) } else { None });
    // the whole output: LOGN n followed by n LOG lines
    for _ in 0..3000 {
        let o = s.stdout();
        let n = o.lines().find_map(|l| l.strip_prefix("LOGN ")).and_then(|v| v.trim().parse::<usize>().ok());
        if let Some(n) = n {
            if o.lines().filter(|l| l.starts_with("LOG ")).count() >= n.min(256) && o.ends_with('\n') {
                break;
            }
        }
        std::thread::sleep(std::time::Duration::from_millis(1));
    }
    let stdout = s.stdout();
    drop(s.dbg);
    let (res_d, log_d) = parse_out(&stdout);
    let (res_n, log_n) = parse_out(&String::from_utf8_lossy(&native.0));
    let mut remaining = vec![];
    let mut inj_ok = true;
    for (k, l) in log_d.iter().enumerate() {
        if let Some((_, exp)) = injected.iter().find(|(i, _)| *i == k as u64) {
            if exp != l {
                inj_ok = false;
            }
        } else {
            remaining.push(l.clone());
        }
    }
    let same_result = res_d == res_n && res_d.is_some();
    let same_log = remaining == log_n;
    let same_exit = code == native.1;
    if !(same_result && same_log && same_exit && inj_ok) {
        let what = format!(
            "after the calls the program does not behave as natively: result {} (native {}), own log equal: {}, injected entries printed as observed: {}, exit {:?} (native {:?}); positions {:?}",
            res_d.clone().unwrap_or("none".into()),
            res_n.clone().unwrap_or("none".into()),
            same_log,
            inj_ok,
            code,
            native.1,
            positions.iter().map(|p| p.2.clone()).collect::<Vec<_>>()
        );
        // attribute the divergence: the only kind of per-call failure seen in this session, else the FP state, else unknown
        let key = if session_keys.len() == 1 {
            session_keys.iter().next().unwrap().clone()
        } else if session_keys.is_empty() && session_fp {
            "c16-e2e:fpregs".to_string()
        } else {
            "c16-e2e:program-output".to_string()
        };
        out.call_failures.push(json!({"key": key, "what": what}));
    }
    out.sessions.push(json!({"focus": focus, "stops": stops, "calls": made, "same_result": same_result, "same_log": same_log, "same_exit": same_exit,
        "positions": positions.iter().map(|p| p.2.clone()).collect::<Vec<_>>(), "lines": line_pos}));
    *out.hist.entry(format!("session_output_equal:{}", same_result && same_log && same_exit)).or_default() += 1;
    Ok(made)
}

fn worker_summary(leg: &str, seed: u64, out: WorkerOut) -> serde_json::Value {
    json!({"leg": leg, "seed": seed, "cases": out.cases.len(), "coq_cases": out.cases, "case_meta": out.metas,
        "call_failures": out.call_failures, "fp_changes": out.fp_changes, "errors": out.errors, "sessions": out.sessions, "histogram": out.hist})
}

fn new_out() -> WorkerOut {
    WorkerOut { cases: vec![], metas: vec![], call_failures: vec![], fp_changes: vec![], errors: vec![], sessions: vec![], hist: BTreeMap::new() }
}

fn build_variant(rng: &mut Rng, scratch: &str, name: &str, swap: bool) -> Result<(Variant, std::path::PathBuf), String> {
    let v = gen_variant(rng, swap);
    let bin = e2e::compile(scratch, name, &v.src, &["-C", "opt-level=1"], None)?;
    Ok((v, bin))
}

/// args: seed, variant index, calls, scratch, mode (all | redzone | align | fp | signal)
pub fn run_worker(args: &[String]) -> i32 {
    let seed: u64 = args.first().and_then(|s| s.parse().ok()).unwrap_or(1);
    let idx: u64 = args.get(1).and_then(|s| s.parse().ok()).unwrap_or(0);
    let calls: usize = args.get(2).and_then(|s| s.parse().ok()).unwrap_or(30);
    let scratch = args.get(3).cloned().unwrap_or_else(|| "/verif/.scratch/c16".into());
    let mode = args.get(4).cloned().unwrap_or_else(|| "all".into());
    let mut rng = Rng::new(seed ^ 0xC16E ^ (idx.wrapping_mul(0x1234_5678_9ABC)));
    let mut out = new_out();
    let name = format!("c16dbg_{seed}_{idx}");
    let (v, bin) = match build_variant(&mut rng, &scratch, &name, false) {
        Ok(x) => x,
        Err(e) => {
            out.errors.push(format!("compile: {e}"));
            println!("{}", worker_summary("c16-e2e-worker", seed, out));
            return 0;
        }
    };
    let file = std::fs::read(&bin).unwrap_or_default();
    let syms = reftrace::symbols(&bin);
    let native = reftrace::native_run(&bin, &[]);
    let mut made = 0usize;
    let mut guard = 0;
    while made < calls && guard < 12 {
        guard += 1;
        let focus = match mode.as_str() {
            "all" => None,
            m => Some(m.to_string()),
        };
        match session(&mut rng, &v, &bin, &file, &syms, &native, calls - made, focus.as_deref(), &mut out) {
            Ok(n) => {
                made += n;
                if n == 0 {
                    break;
                }
            }
            Err(e) => {
                out.errors.push(format!("session: {e}"));
                break;
            }
        }
        if mode != "all" {
            break;
        }
    }
    println!("{}", worker_summary("c16-e2e-worker", seed, out));
    0
}

/// the cache refutation, deliberately in one process: binary A then binary B whose c16first/c16second are swapped
pub fn run_cache(args: &[String]) -> i32 {
    let seed: u64 = args.first().and_then(|s| s.parse().ok()).unwrap_or(1);
    let scratch = args.get(1).cloned().unwrap_or_else(|| "/verif/.scratch/c16".into());
    let mut out = new_out();
    let mut details = vec![];
    let mut stale = false;
    for (k, swap) in [(0u64, false), (1, true)] {
        // the same generator state for both so that only the two names differ
        let mut rng = Rng::new(seed ^ 0xCAC4E);
        let name = format!("c16cache_{seed}_{k}");
        let (v, bin) = match build_variant(&mut rng, &scratch, &name, swap) {
            Ok(x) => x,
            Err(e) => {
                out.errors.push(format!("compile: {e}"));
                break;
            }
        };
        let _ = v;
        let syms = reftrace::symbols(&bin);
        let log_addr = match data_symbol(&bin, "C16_LOG") {
            Some(a) => a + PIE_BASE,
            None => {
                out.errors.push("no C16_LOG".into());
                break;
            }
        };
        let addr_first = sym(&syms, "c16first").map(|s| s.1).unwrap_or(0);
        let r = (|| -> Result<serde_json::Value, String> {
            let mut s = e2e::launch(&bin, &[])?;
            s.dbg.set_breakpoint_at_fn("main").map_err(|e| e.to_string())?;
            s.dbg.start_debugee().map_err(|e| e.to_string())?;
            let pid = s.pid_now();
            let n0 = e2e::proc_mem_read(pid, log_addr, 8).map(|b| u64::from_le_bytes(b.try_into().unwrap()))?;
            let res = s.dbg.call("c16first", &[Literal::Int(300)]);
            let n1 = e2e::proc_mem_read(pid, log_addr, 8).map(|b| u64::from_le_bytes(b.try_into().unwrap()))?;
            let e = read_log_entry(pid, log_addr, n0).unwrap_or([0; 8]);
            // A: c16first(a: u8) logs id 10 and 300 mod 256 = 44; B: c16first(a: i64) logs id 11 and 300.
            // (Symbols are laid out by name, so both binaries have c16first at the same address: what a stale
            // cache entry shows deterministically is the parameter type of A, i.e. 44 instead of 300.)
            let want: (u64, u64) = if swap { (11, 300) } else { (10, 44) };
            let ok = res.is_ok() && n1 == n0 + 1 && (e[0], e[2]) == want;
            let _ = s.dbg.continue_debugee();
            Ok(json!({"binary": k, "swap": swap, "c16first_file_addr": addr_first, "result": format!("{res:?}"), "new_entries": n1 - n0,
                "logged_id": e[0], "logged_arg": e[2], "expected_id": want.0, "expected_arg": want.1, "ok": ok}))
        })();
        match r {
            Ok(d) => {
                if k == 1 && d["ok"].as_bool() == Some(false) {
                    stale = true;
                }
                if k == 0 && d["ok"].as_bool() == Some(false) {
                    out.errors.push(format!("first binary: call failed: {d}"));
                }
                details.push(d);
            }
            Err(e) => out.errors.push(format!("cache session {k}: {e}")),
        }
    }
    println!(
        "{}",
        json!({"leg": "c16-e2e-cache", "seed": seed, "cases": details.len(), "stale_cache_served": stale, "details": details, "errors": out.errors})
    );
    0
}

/// parent: args = seed, count (calls in total), cases_dir, scratch, [modes: comma list among all,redzone,align,fp,cache]
pub fn run_e2e(args: &[String]) -> i32 {
    let seed: u64 = args.first().and_then(|s| s.parse().ok()).unwrap_or(1);
    let count: usize = args.get(1).and_then(|s| s.parse().ok()).unwrap_or(120);
    let out_dir = args.get(2).cloned().unwrap_or_else(|| "../coq/cases".into());
    let scratch = args.get(3).cloned().unwrap_or_else(|| "/verif/.scratch/c16".into());
    let modes = args.get(4).cloned().unwrap_or_else(|| "all,redzone,align,fp,signal,cache".into());
    let exe = std::env::current_exe().unwrap();
    let per_variant = 30usize;
    let n_variants = ((count + per_variant - 1) / per_variant).max(1);
    let mut jobs: Vec<(String, Vec<String>)> = vec![];
    for m in modes.split(',') {
        match m {
            "all" => {
                for i in 0..n_variants {
                    let c = per_variant.min(count - (i * per_variant).min(count)).max(1);
                    jobs.push(("c16-e2e-worker".into(), vec![seed.to_string(), i.to_string(), c.to_string(), scratch.clone(), "all".into()]));
                }
            }
            "redzone" | "align" | "fp" | "signal" => jobs.push(("c16-e2e-worker".into(), vec![seed.to_string(), (1000 + m.len()).to_string(), "6".into(), scratch.clone(), m.to_string()])),
            "cache" => jobs.push(("c16-e2e-cache".into(), vec![seed.to_string(), scratch.clone()])),
            _ => {}
        }
    }
    // workers are separate processes (fresh CallCache each); run up to 4 at a time
    let mut results: Vec<(String, Vec<String>, Option<serde_json::Value>, String)> = vec![];
    for chunk in jobs.chunks(8) {
        let children: Vec<_> = chunk
            .iter()
            .map(|(leg, a)| {
                let c = std::process::Command::new(&exe).arg(leg).args(a).stdout(std::process::Stdio::piped()).stderr(std::process::Stdio::piped()).spawn();
                (leg.clone(), a.clone(), c)
            })
            .collect();
        for (leg, a, c) in children {
            match c {
                Ok(ch) => match ch.wait_with_output() {
                    Ok(o) => {
                        let so = String::from_utf8_lossy(&o.stdout).to_string();
                        let j = so.lines().rev().find(|l| l.starts_with('{')).and_then(|l| serde_json::from_str(l).ok());
                        let tail = format!("rc={:?} {}", o.status.code(), String::from_utf8_lossy(&o.stderr).chars().rev().take(400).collect::<String>().chars().rev().collect::<String>());
                        results.push((leg, a, j, tail));
                    }
                    Err(e) => results.push((leg, a, None, e.to_string())),
                },
                Err(e) => results.push((leg, a, None, e.to_string())),
            }
        }
    }
    let mut cases = CasesFile::new(&["Model.Call"], "call_case", "call_check");
    let mut metas: Vec<serde_json::Value> = vec![];
    let mut hist: BTreeMap<String, u64> = BTreeMap::new();
    let mut errors: Vec<String> = vec![];
    let mut call_failures: Vec<serde_json::Value> = vec![];
    let mut fp_changes: Vec<String> = vec![];
    let mut sessions: Vec<serde_json::Value> = vec![];
    let mut cache = serde_json::Value::Null;
    let mut seen = HashSet::new();
    let mut nontrivial = 0usize;
    let mut samples = vec![];
    for (leg, a, j, tail) in results {
        let Some(j) = j else {
            errors.push(format!("worker {leg} {:?} gave no summary: {tail}", a));
            continue;
        };
        if leg == "c16-e2e-cache" {
            for e in j["errors"].as_array().cloned().unwrap_or_default() {
                errors.push(format!("cache worker: {}", e.as_str().unwrap_or("")));
            }
            cache = j;
            continue;
        }
        let mode = a.get(4).cloned().unwrap_or_default();
        for e in j["errors"].as_array().cloned().unwrap_or_default() {
            errors.push(format!("worker {} {}: {}", a[1], mode, e.as_str().unwrap_or("")));
        }
        for f in j["call_failures"].as_array().cloned().unwrap_or_default() {
            let mut f = f;
            f["worker"] = json!(format!("{}#{}", mode, a[1]));
            *hist.entry(format!("failure:{}", f["key"].as_str().unwrap_or("?"))).or_default() += 1;
            if call_failures.len() < 80 {
                call_failures.push(f);
            }
        }
        for f in j["fp_changes"].as_array().cloned().unwrap_or_default() {
            if fp_changes.len() < 10 {
                fp_changes.push(f.as_str().unwrap_or("").to_string());
            }
        }
        for s in j["sessions"].as_array().cloned().unwrap_or_default() {
            let mut s = s;
            s["worker"] = json!(format!("{}#{}", mode, a[1]));
            sessions.push(s);
        }
        if let Some(h) = j["histogram"].as_object() {
            for (k, v) in h {
                *hist.entry(k.clone()).or_default() += v.as_u64().unwrap_or(0);
            }
        }
        let cs = j["coq_cases"].as_array().cloned().unwrap_or_default();
        let ms = j["case_meta"].as_array().cloned().unwrap_or_default();
        for (c, m) in cs.iter().zip(ms.iter()) {
            let c = c.as_str().unwrap_or("").to_string();
            let mut m = m.clone();
            m["worker"] = json!(format!("{}#{}", mode, a[1]));
            // non-trivial: the function ran (a log entry is expected) with at least one argument, or the call was refused with the state observed
            let nt = m["args"].as_array().map(|x| !x.is_empty()).unwrap_or(false);
            let key = format!("{}|{}|{}|{}", m["fn"], m["args"], m["pos"], m["worker"]);
            if seen.insert(key) && nt {
                nontrivial += 1;
            }
            if samples.len() < 3 && metas.len() % 17 == 3 {
                samples.push(m.clone());
            }
            cases.push(c);
            metas.push(m);
        }
    }
    let shard = 40usize;
    let files = cases.write(&out_dir, "cases_C16_e2e", shard);
    println!(
        "{}",
        json!({"leg": "c16-e2e", "seed": seed, "cases": metas.len(), "distinct_nontrivial": nontrivial, "histogram": hist, "samples": samples,
            "files": files, "errors": errors, "case_meta": metas, "shard": shard, "call_failures": call_failures, "fp_changes": fp_changes,
            "sessions": sessions, "cache": cache})
    );
    0
}
