fn main() {
    // libthread_db resolves the ps_* callbacks in the executable
    println!("cargo:rustc-link-arg=-Wl,--export-dynamic");
}
