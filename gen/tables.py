"""Generators of coq/theories/Gen/*.v: each returns (file name, content)."""
from core import Shape, read, const_int, eval_int, fn_body, strip_rust_comments  # noqa: F401
import re

GENERATORS = []


def generator(f):
    GENERATORS.append(f)
    return f
