#!/usr/bin/env python3
"""Translator entry point: see gen/core.py (helpers, body hashes) and gen/tables.py (tables -> Gen/*.v)."""
import os
import sys

sys.path.insert(0, os.path.dirname(os.path.abspath(__file__)))
import core  # noqa: E402
import tables  # noqa: E402

if __name__ == "__main__":
    core.main(tables.GENERATORS)
