"""Translator (T): re-reads /repo's working tree on every run and regenerates
coq/theories/Gen/*.v (constants and tables the theorems are stated over) plus
gen/body_hashes.json (normalised hash of every hand-modelled function body).

It aborts (exit 1) when the source no longer has the shape it parses: the check then
reports a broken tie instead of silently proving theorems about stale data.
Files are rewritten only when their content changes, so `make` stays a no-op otherwise.
"""
import hashlib
import json
import os
import re
import sys

ROOT = os.path.dirname(os.path.dirname(os.path.abspath(__file__)))
REPO = os.environ.get("VERIF_REPO", "/repo")
GEN = os.path.join(ROOT, "coq", "theories", "Gen")


class Shape(Exception):
    pass


def read(rel):
    p = os.path.join(REPO, rel)
    if not os.path.exists(p):
        raise Shape("missing source file %s" % rel)
    return open(p).read()


def strip_rust_comments(s):
    s = re.sub(r"//[^\n]*", "", s)
    s = re.sub(r"/\*.*?\*/", "", s, flags=re.S)
    return s


def fn_body(src, name, nth=0):
    """text of the nth `fn name` item (signature + brace-matched body)"""
    ms = list(re.finditer(r"\bfn\s+%s\s*[<(]" % re.escape(name), src))
    if len(ms) <= nth:
        raise Shape("fn %s not found" % name)
    i = ms[nth].start()
    j = src.index("{", i)
    depth = 0
    k = j
    while k < len(src):
        c = src[k]
        if c == "{":
            depth += 1
        elif c == "}":
            depth -= 1
            if depth == 0:
                return src[i:k + 1]
        k += 1
    raise Shape("unbalanced body of fn %s" % name)


def norm_hash(text):
    t = strip_rust_comments(text)
    t = re.sub(r"\s+", "", t)
    return hashlib.sha256(t.encode()).hexdigest()[:16]


def write_if_changed(path, content):
    if os.path.exists(path) and open(path).read() == content:
        return False
    os.makedirs(os.path.dirname(path), exist_ok=True)
    open(path, "w").write(content)
    return True


def const_int(src, name, rel):
    m = re.search(r"\bconst\s+%s\s*:\s*[\w:]+\s*=\s*([^;]+);" % re.escape(name), src)
    if not m:
        raise Shape("const %s not found in %s" % (name, rel))
    return eval_int(m.group(1), rel, name)


def eval_int(expr, rel="?", name="?"):
    e = expr.strip()
    e = re.sub(r"_", "", e)
    e = re.sub(r"(?<=[0-9a-fA-F])(u8|u16|u32|u64|usize|i32|i64|isize)\b", "", e)
    e = re.sub(r"\s+as\s+\w+", "", e)
    if not re.fullmatch(r"[0-9a-fA-FxX+\-*/()<>|& ]+", e):
        raise Shape("constant %s in %s has an unsupported initialiser: %s" % (name, rel, expr))
    return int(eval(e, {"__builtins__": {}}))


# ----------------------------------------------------------------------------------
# per-property: which function bodies are hand-modelled (hash recorded, change => the
# evidence says so and the correspondence leg of that unit runs at thorough volume)
MODELLED = {
    "C17": [
        ("src/debugger/debugee/dwarf/utils.rs", "insert", 0),
        ("src/debugger/debugee/dwarf/utils.rs", "insert_w_head", 0),
        ("src/debugger/debugee/dwarf/utils.rs", "get", 0),
        ("src/debugger/debugee/dwarf/symbol.rs", "new", 0),
        ("src/debugger/debugee/dwarf/symbol.rs", "find", 0),
    ],
}



def main(generators, modelled=None):
    """extract.py [--only Dr.v,Regs.v]: regenerate all Gen files, or only the named ones (a property's check runs only the
    generators its own theorems depend on, so that a shape change in an unrelated part of the source does not alarm it)."""
    modelled = modelled or MODELLED
    only = None
    if "--only" in sys.argv:
        only = set(x for x in sys.argv[sys.argv.index("--only") + 1].split(",") if x)
        generators = [g for g in generators if g.output in only]
    failed = []
    try:
        hashes = {}
        for pid, items in modelled.items():
            hashes[pid] = {}
            for rel, name, nth in items:
                hashes[pid]["%s::%s#%d" % (rel, name, nth)] = norm_hash(fn_body(read(rel), name, nth))
        write_if_changed(os.path.join(ROOT, "gen", "body_hashes.json"), json.dumps(hashes, indent=1, sort_keys=True))
    except Shape as e:
        if only is None:
            failed.append("body hashes: %s" % e)
    for g in generators:
        try:
            name, content = g()
            write_if_changed(os.path.join(GEN, name), content)
        except Shape as e:
            failed.append("%s: %s" % (g.output, e))
    if failed:
        for f in failed:
            print("translator: source shape changed: %s" % f)
        sys.exit(1)
